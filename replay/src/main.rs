//! Native replay: runs JSON cases against the real, natively compiled starlark-rust
//! through its public API and prints one JSON result per case.
use std::panic::AssertUnwindSafe;
use std::str::FromStr;

use num_bigint::BigInt;
use serde_json::json;
use serde_json::Value as J;
use starlark::environment::Globals;
use starlark::environment::Module;
use starlark::eval::Evaluator;
use starlark::syntax::AstModule;
use starlark::syntax::Dialect;

mod maps;

fn set_vars<'v>(module: &Module<'v>, vars: &J) -> Result<(), String> {
    if let Some(obj) = vars.as_object() {
        for (name, spec) in obj {
            let heap = module.heap();
            let v = if let Some(s) = spec.get("int").and_then(|x| x.as_str()) {
                let b = BigInt::from_str(s).map_err(|e| e.to_string())?;
                heap.alloc(b)
            } else if let Some(s) = spec.get("float_bits").and_then(|x| x.as_str()) {
                let bits = u64::from_str_radix(s.trim_start_matches("0x"), 16).map_err(|e| e.to_string())?;
                heap.alloc(f64::from_bits(bits))
            } else if let Some(s) = spec.get("str").and_then(|x| x.as_str()) {
                heap.alloc(s)
            } else {
                return Err(format!("bad var spec for {name}"));
            };
            module.set(name, v);
        }
    }
    Ok(())
}

fn eval_case(case: &J) -> J {
    let program = case["program"].as_str().unwrap_or("").to_owned();
    let dialect = if case["dialect"].as_str() == Some("extended") { Dialect::AllOptionsInternal } else { Dialect::Standard };
    let ast = match AstModule::parse("case.star", program, &dialect) {
        Ok(a) => a,
        Err(e) => return json!({"err": format!("{}", e), "stage": "parse"}),
    };
    let globals = Globals::extended_internal();
    Module::with_temp_heap(|module| {
        if let Err(e) = set_vars(&module, &case["vars"]) {
            return json!({"machinery_error": e});
        }
        let mut eval = Evaluator::new(&module);
        if let Some(l) = case["max_ticks"].as_u64() {
            eval.set_max_tick_count(l).unwrap();
        }
        if let Some(d) = case["max_callstack"].as_u64() {
            eval.set_max_callstack_size(d as usize).unwrap();
        }
        // `repeat`: evaluate the same program N more times first on the same evaluator (results ignored): error-then-reuse histories
        if let Some(n) = case["repeat"].as_u64() {
            for _ in 0..n {
                if let Ok(a) = AstModule::parse("case.star", case["program"].as_str().unwrap_or("").to_owned(), &Dialect::Standard) {
                    let _ = eval.eval_module(a, &globals);
                }
            }
        }
        let res = eval.eval_module(ast, &globals);
        let ticks = eval.get_total_tick_count();
        let mut out = match res {
            Ok(v) => json!({"ok": v.to_repr()}),
            Err(e) => json!({"err": format!("{}", e.without_diagnostic()), "kind": format!("{:?}", e.kind()).chars().take(200).collect::<String>()}),
        };
        out["ticks"] = json!(ticks);
        // evaluator reuse after the run (C07 / C15): evaluate unrelated code on the same evaluator
        if let Some(again) = case["then"].as_str() {
            let r2 = match AstModule::parse("again.star", again.to_owned(), &Dialect::Standard) {
                Ok(a) => match eval.eval_module(a, &globals) {
                    Ok(v) => json!({"ok": v.to_repr()}),
                    Err(e) => json!({"err": format!("{}", e.without_diagnostic())}),
                },
                Err(e) => json!({"err": format!("{}", e)}),
            };
            out["then"] = r2;
            out["ticks_after"] = json!(eval.get_total_tick_count());
        }
        out
    })
}

fn parse_case(case: &J) -> J {
    let src = case["src"].as_str().unwrap_or("").to_owned();
    let dialect = if case["dialect"].as_str() == Some("extended") { Dialect::AllOptionsInternal } else { Dialect::Standard };
    match AstModule::parse("case.star", src, &dialect) {
        Ok(a) => json!({"ok": format!("{:?}", a.statement().node), "printed": format!("{}", a.statement().node)}),
        Err(e) => json!({"err": format!("{}", e)}),
    }
}

/// `ParametersSpec::new_parts(...)` then `can_fill_with_args(pos, names)` through the public API.
/// groups: "pos_only" / "pos_or_named" / "named_only" = lists of [name, kind] with kind "Required" | "Optional" | "Defaulted".
fn can_fill_case(case: &J) -> J {
    use starlark::eval::ParametersSpec;
    use starlark::eval::ParametersSpecParam;
    use starlark::values::FrozenValue;
    fn group(j: &J) -> Vec<(String, ParametersSpecParam<FrozenValue>)> {
        j.as_array()
            .cloned()
            .unwrap_or_default()
            .iter()
            .map(|e| {
                let kind = match e[1].as_str().unwrap_or("Required") {
                    "Optional" => ParametersSpecParam::Optional,
                    "Defaulted" => ParametersSpecParam::Defaulted(FrozenValue::new_none()),
                    _ => ParametersSpecParam::Required,
                };
                (e[0].as_str().unwrap_or("").to_owned(), kind)
            })
            .collect()
    }
    let (po, pn, no) = (group(&case["pos_only"]), group(&case["pos_or_named"]), group(&case["named_only"]));
    let spec: ParametersSpec<FrozenValue> = ParametersSpec::new_parts(
        "f",
        po.iter().map(|(n, k)| (n.as_str(), *k)),
        pn.iter().map(|(n, k)| (n.as_str(), *k)),
        case["args"].as_bool().unwrap_or(false),
        no.iter().map(|(n, k)| (n.as_str(), *k)),
        case["kwargs"].as_bool().unwrap_or(false),
    );
    let names: Vec<String> = case["names"].as_array().cloned().unwrap_or_default().iter().map(|x| x.as_str().unwrap_or("").to_owned()).collect();
    let names_ref: Vec<&str> = names.iter().map(|s| s.as_str()).collect();
    json!({"ok": spec.can_fill_with_args(case["pos"].as_u64().unwrap_or(0) as usize, &names_ref)})
}

fn run_case(case: &J) -> J {
    let kind = case["kind"].as_str().unwrap_or("eval");
    let r = std::panic::catch_unwind(AssertUnwindSafe(|| match kind {
        "eval" => eval_case(case),
        "parse" => parse_case(case),
        "can_fill" => can_fill_case(case),
        "map" => maps::map_case(case),
        "vec2" => maps::vec2_case(case),
        _ => json!({"machinery_error": format!("unknown kind {kind}")}),
    }));
    match r {
        Ok(v) => v,
        Err(p) => {
            let msg = if let Some(s) = p.downcast_ref::<String>() {
                s.clone()
            } else if let Some(s) = p.downcast_ref::<&str>() {
                (*s).to_owned()
            } else {
                "panic".to_owned()
            };
            json!({"panic": msg})
        }
    }
}

fn main() {
    let path = std::env::args().nth(1).expect("usage: verif-replay <cases.json>");
    let text = std::fs::read_to_string(&path).expect("read cases");
    let cases: J = serde_json::from_str(&text).expect("json");
    std::panic::set_hook(Box::new(|info| {
        eprintln!("[replay] panic: {info}");
    }));
    let out: Vec<J> = match cases {
        J::Array(v) => v.iter().map(run_case).collect(),
        c => vec![run_case(&c)],
    };
    println!("{}", serde_json::to_string(&out).unwrap());
}
