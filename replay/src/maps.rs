//! starlark_map replay: run an operation sequence against the real SmallMap and a Vec model.
use serde_json::json;
use serde_json::Value as J;
use starlark_map::small_map::SmallMap;
use starlark_map::Hashed;
use starlark_map::StarlarkHashValue;

fn h(k: u8, hv: u32) -> Hashed<u8> {
    Hashed::new_unchecked(StarlarkHashValue::new_unchecked(hv), k)
}

pub fn vec2_case(case: &J) -> J {
    use starlark_map::vec2::Vec2;
    let mut v: Vec2<u8, u16> = match case["capacity"].as_u64() {
        Some(c) => Vec2::with_capacity(c as usize),
        None => Vec2::new(),
    };
    let mut model: Vec<(u8, u16)> = Vec::new();
    for op in case["ops"].as_array().cloned().unwrap_or_default() {
        let name = op["op"].as_str().unwrap_or("");
        let a = op["a"].as_u64().unwrap_or(0) as u8;
        let b = op["b"].as_u64().unwrap_or(0) as u16;
        let i = op["i"].as_u64().unwrap_or(0) as usize;
        match name {
            "push" => {
                v.push(a, b);
                model.push((a, b));
            }
            "pop" => {
                let r = v.pop();
                let mr = model.pop();
                if r != mr {
                    return json!({"mismatch": format!("Vec2::pop returned {:?}, model {:?}", r, mr)});
                }
            }
            "remove" => {
                if i >= model.len() {
                    return json!({"machinery_error": "remove out of range"});
                }
                let r = v.remove(i);
                let mr = model.remove(i);
                if r != mr {
                    return json!({"mismatch": format!("Vec2::remove({}) returned {:?}, model {:?}", i, r, mr)});
                }
            }
            "truncate" => {
                v.truncate(i);
                model.truncate(i);
            }
            "clear" => {
                v.clear();
                model.clear();
            }
            "sort" => {
                v.sort_by(|x, y| x.0.cmp(y.0));
                model.sort_by(|x, y| x.0.cmp(&y.0));
            }
            "retain_even" => {
                v.retain(|a, _b| *a & 1 == 0);
                model.retain(|e| e.0 & 1 == 0);
            }
            "shrink" => {
                v.shrink_to_fit();
            }
            "clone_eq" => {
                let mut w = v.clone();
                if !(v == w) {
                    return json!({"mismatch": "Vec2 clone is not == the original"});
                }
                let wi: Vec<(u8, u16)> = w.iter().map(|(a, b)| (*a, *b)).collect();
                if wi != model {
                    return json!({"mismatch": format!("Vec2 clone holds {:?}, model {:?}", wi, model)});
                }
                if w.pop().is_some() && v == w {
                    return json!({"mismatch": "Vec2 == its clone after the clone lost an element"});
                }
            }
            "into_iter_fwd" => {
                let got: Vec<(u8, u16)> = v.clone().into_iter().collect();
                if got != model {
                    return json!({"mismatch": format!("Vec2 by-value iteration {:?}, model {:?}", got, model)});
                }
            }
            "into_iter_ends" => {
                // by-value iteration alternating next / next_back; the first end is given by `i` (0 = front)
                let mut it = v.clone().into_iter();
                let mut mit = model.clone().into_iter();
                let mut front = i == 0;
                loop {
                    if it.len() != mit.len() {
                        return json!({"mismatch": format!("Vec2 IntoIter::len {} vs model {}", it.len(), mit.len())});
                    }
                    let (r, mr) = if front { (it.next(), mit.next()) } else { (it.next_back(), mit.next_back()) };
                    if r != mr {
                        return json!({"mismatch": format!("Vec2 IntoIter::{} returned {:?}, model {:?}", if front { "next" } else { "next_back" }, r, mr)});
                    }
                    if mr.is_none() {
                        break;
                    }
                    front = !front;
                }
            }
            _ => return json!({"machinery_error": format!("unknown vec2 op {name}")}),
        }
        if v.len() != model.len() {
            return json!({"mismatch": format!("Vec2 len {} vs model {} after {}", v.len(), model.len(), name)});
        }
        for (j, e) in model.iter().enumerate() {
            if v.get(j) != Some((&e.0, &e.1)) {
                return json!({"mismatch": format!("Vec2::get({}) = {:?}, model {:?} after {}", j, v.get(j), e, name)});
            }
        }
        let it: Vec<(u8, u16)> = v.iter().map(|(a, b)| (*a, *b)).collect();
        if it != model {
            return json!({"mismatch": format!("Vec2 iteration {:?} vs model {:?} after {}", it, model, name)});
        }
    }
    json!({"ok": model.len()})
}

pub fn map_case(case: &J) -> J {
    let mut m: SmallMap<u8, u8> = match case["capacity"].as_u64() {
        Some(c) => SmallMap::with_capacity(c as usize),
        None => SmallMap::new(),
    };
    let mut model: Vec<(u8, u32, u8)> = Vec::new();
    let mut log = Vec::new();
    for op in case["ops"].as_array().cloned().unwrap_or_default() {
        let name = op["op"].as_str().unwrap_or("");
        let k = op["k"].as_u64().unwrap_or(0) as u8;
        let hv = op["h"].as_u64().unwrap_or(0) as u32;
        let v = op["v"].as_u64().unwrap_or(0) as u8;
        match name {
            "insert_unique" => {
                m.insert_hashed_unique_unchecked(h(k, hv), v);
                model.push((k, hv, v));
            }
            "insert" => {
                let r = m.insert_hashed(h(k, hv), v);
                let mr = if let Some(e) = model.iter_mut().find(|e| e.0 == k) {
                    let old = e.2;
                    e.2 = v;
                    Some(old)
                } else {
                    model.push((k, hv, v));
                    None
                };
                if r != mr {
                    return json!({"mismatch": format!("insert returned {:?}, model {:?}", r, mr)});
                }
            }
            "shift_remove" => {
                let r = m.shift_remove_hashed(h(k, hv).as_ref());
                let mr = model.iter().position(|e| e.0 == k).map(|i| model.remove(i).2);
                if r != mr {
                    return json!({"mismatch": format!("shift_remove returned {:?}, model {:?}", r, mr)});
                }
            }
            "shift_remove_index" => {
                let i = op["i"].as_u64().unwrap_or(0) as usize;
                let r = m.shift_remove_index(i);
                let mr = if i < model.len() { let e = model.remove(i); Some((e.0, e.2)) } else { None };
                if r != mr {
                    return json!({"mismatch": format!("shift_remove_index({}) returned {:?}, model {:?}", i, r, mr)});
                }
            }
            "entry_or_insert" => {
                let r = *m.entry_hashed(h(k, hv)).or_insert(v);
                let mr = if let Some(e) = model.iter().find(|e| e.0 == k) {
                    e.2
                } else {
                    model.push((k, hv, v));
                    v
                };
                if r != mr {
                    return json!({"mismatch": format!("entry().or_insert returned {:?}, model {:?}", r, mr)});
                }
            }
            "pop" => {
                let r = m.pop();
                let mr = model.pop().map(|e| (e.0, e.2));
                if r != mr {
                    return json!({"mismatch": format!("pop returned {:?}, model {:?}", r, mr)});
                }
            }
            "reverse" => {
                m.reverse();
                model.reverse();
            }
            "sort_keys" => {
                m.sort_keys();
                model.sort_by_key(|e| e.0);
            }
            "retain_even_values" => {
                m.retain(|_, v| *v % 2 == 0);
                model.retain(|e| e.2 % 2 == 0);
            }
            "clear" => {
                m.clear();
                model.clear();
            }
            "eq_prefix" => {
                // the map vs the map of its first len-1 entries and vs the empty map; and vs the same entries reversed
                let mut p: SmallMap<u8, u8> = SmallMap::new();
                for e in model.iter().take(model.len().saturating_sub(1)) {
                    p.insert_hashed_unique_unchecked(h(e.0, e.1), e.2);
                }
                let e: SmallMap<u8, u8> = SmallMap::new();
                if !model.is_empty() {
                    if m.eq_ordered(&p) || p.eq_ordered(&m) || m == p || p == m {
                        return json!({"mismatch": format!("a map with {} entries equals (== or eq_ordered) the map of its first {} entries", model.len(), model.len() - 1)});
                    }
                    if m.eq_ordered(&e) || e.eq_ordered(&m) || m == e || e == m {
                        return json!({"mismatch": format!("a map with {} entries equals (== or eq_ordered) the empty map", model.len())});
                    }
                }
                let mut r: SmallMap<u8, u8> = SmallMap::new();
                for e in model.iter().rev() {
                    r.insert_hashed_unique_unchecked(h(e.0, e.1), e.2);
                }
                if !(m == r) || (model.len() >= 2 && m.eq_ordered(&r)) || !m.eq_ordered(&m) {
                    return json!({"mismatch": "== / eq_ordered wrong on the reversed map"});
                }
            }
            _ => return json!({"machinery_error": format!("unknown map op {name}")}),
        }
        // full agreement after every step
        if m.len() != model.len() {
            return json!({"mismatch": format!("len {} vs model {} after {}", m.len(), model.len(), name)});
        }
        for (i, e) in model.iter().enumerate() {
            if m.get_index(i) != Some((&e.0, &e.2)) {
                return json!({"mismatch": format!("get_index({}) = {:?}, model {:?} after {}", i, m.get_index(i), e, name)});
            }
            if m.get_index_of_hashed(h(e.0, e.1).as_ref()) != Some(i) {
                return json!({"mismatch": format!("get_index_of({}) = {:?}, model {} after {}", e.0, m.get_index_of_hashed(h(e.0, e.1).as_ref()), i, name)});
            }
            if m.get_hashed(h(e.0, e.1).as_ref()) != Some(&e.2) {
                return json!({"mismatch": format!("get({}) wrong after {}", e.0, name)});
            }
        }
        let it: Vec<(u8, u8)> = m.iter().map(|(a, b)| (*a, *b)).collect();
        let mt: Vec<(u8, u8)> = model.iter().map(|e| (e.0, e.2)).collect();
        if it != mt {
            return json!({"mismatch": format!("iteration {:?} vs model {:?} after {}", it, mt, name)});
        }
        log.push(name.to_owned());
    }
    json!({"ok": log})
}
