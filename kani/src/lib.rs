//! Kani harness crate for C11 (starlark_map containers vs. a list of pairs).
//! `generated.rs` is written by props/c11.py on every run.
#[cfg(kani)]
mod generated;
