"""Final-obligation queries: z3 (python API) decides, cvc5 / system z3 cross-check the exported SMT-LIB2."""
import os
import re
import subprocess
import tempfile
import time
import z3

from .exec import POW2_AXIOMS


class Decider:
    def __init__(self, timeout_s=60, cross=False, seed=0, workdir='/verif/.work/smt'):
        self.timeout_s = timeout_s
        self.cross = cross
        self.seed = seed
        self.workdir = workdir
        os.makedirs(workdir, exist_ok=True)
        self.stats = {'z3': {'sat': 0, 'unsat': 0, 'unknown': 0, 'time_s': 0.0},
                      'cvc5': {'sat': 0, 'unsat': 0, 'unknown': 0, 'error': 0, 'time_s': 0.0},
                      'disagreements': 0}
        self.nq = 0
        self.cross_cap_s = 10
        self.cross_budget = {}      # label -> number of cross-checks done (at most cross_per_label per obligation)
        self.cross_per_label = 25
        self.logic = None        # e.g. 'QF_FPBV' for pure bit-vector / floating-point queries (eager bit-blasting)

    def check(self, conds, lemmas=(), want_model=True, label=''):
        """returns ('sat', model) / ('unsat', None) / ('unknown', reason)"""
        s = z3.SolverFor(self.logic) if self.logic else z3.Solver()
        s.set('timeout', int(self.timeout_s * 1000))
        if self.seed:
            try:
                s.set('random_seed', self.seed & 0x7fffffff)
            except z3.Z3Exception:
                pass
        uses_pow2 = any('pow2' in c.sexpr() for c in list(conds) + list(lemmas)) if conds else False
        if uses_pow2:
            for ax in POW2_AXIOMS:
                s.add(ax)
        for c in lemmas:
            s.add(c)
        for c in conds:
            s.add(c)
        t0 = time.time()
        r = s.check()
        dt = time.time() - t0
        self.nq += 1
        st = self.stats['z3']
        st['time_s'] += dt
        res = 'sat' if r == z3.sat else ('unsat' if r == z3.unsat else 'unknown')
        st[res] += 1
        model = None
        if res == 'sat':
            model = s.model()
        if self.cross and res != 'unknown' and self.cross_budget.get(label, 0) < self.cross_per_label:
            self.cross_budget[label] = self.cross_budget.get(label, 0) + 1
            other = self.cvc5(s, label)
            if other in ('sat', 'unsat') and other != res:
                self.stats['disagreements'] += 1
                return 'unknown', f'solver disagreement: z3={res} cvc5={other}'
        if res == 'unknown':
            return res, s.reason_unknown()
        return res, model

    def cvc5(self, solver, label=''):
        text = '(set-logic ALL)\n' + solver.to_smt2()
        fd, path = tempfile.mkstemp(suffix='.smt2', dir=self.workdir)
        with os.fdopen(fd, 'w') as f:
            f.write(text)
        t0 = time.time()
        st = self.stats['cvc5']
        try:
            cap = min(self.timeout_s, self.cross_cap_s)      # the second opinion gets a short cap: its time-outs count as 'unknown', never as disagreement
            r = subprocess.run(['cvc5', '--lang', 'smt2', f'--tlimit={int(cap * 1000)}', path],
                               stdout=subprocess.PIPE, stderr=subprocess.STDOUT, text=True, timeout=cap + 10)
            out = r.stdout
        except subprocess.TimeoutExpired:
            out = 'timeout'
        st['time_s'] += time.time() - t0
        os.unlink(path)
        if '(error' in out or 'error' in out.lower() and 'unsat' not in out and 'sat' not in out:
            st['error'] += 1
            return 'error'
        lines = [ln.strip() for ln in out.splitlines() if ln.strip()]
        ans = lines[0] if lines else 'unknown'
        if ans not in ('sat', 'unsat'):
            ans = 'unknown'
        st[ans] += 1
        return ans

    def summary(self):
        z = self.stats['z3']
        c = self.stats['cvc5']
        return {'queries': self.nq,
                'z3': {k: (round(v, 2) if isinstance(v, float) else v) for k, v in z.items()},
                'cvc5': {k: (round(v, 2) if isinstance(v, float) else v) for k, v in c.items()},
                'disagreements': self.stats['disagreements']}


def model_int(model, term):
    v = model.eval(term, model_completion=True)
    if z3.is_int_value(v):
        return v.as_long()
    if z3.is_bv_value(v):
        return v.as_long()
    if z3.is_true(v):
        return True
    if z3.is_false(v):
        return False
    return str(v)


def model_signed(model, term):
    v = model.eval(term, model_completion=True)
    if z3.is_bv_value(v):
        return v.as_signed_long()
    if z3.is_int_value(v):
        return v.as_long()
    return str(v)


def model_f64_bits(model, term):
    """f64 model value -> 64-bit pattern (int)"""
    import struct
    v = model.eval(term, model_completion=True)
    if z3.is_fp(v):
        if z3.is_fprm(v):
            return None
        try:
            if v.isNaN():
                return 0x7ff8000000000000
            if v.isInf():
                return 0xfff0000000000000 if v.isNegative() else 0x7ff0000000000000
            sign = 1 if v.sign() else 0
            exp = v.exponent_as_long(biased=True)
            sig = v.significand_as_long()
            return (sign << 63) | (exp << 52) | sig
        except Exception:
            pass
    return None
