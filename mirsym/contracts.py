"""Contract list = trusted base of the MIR executor (DESIGN.md §3.1).

A contract replaces a *library* function (core / std / num_bigint / anyhow) by its
mathematical meaning.  Repository functions are never given contracts here; the few
receiver-plumbing contracts a property needs are registered by that property's module
and listed in its evidence."""
import re
import z3

from .exec import (DIVIDES, Big, Enum, Err, Opaque, Ref, Slice, Struct, Unsupported, INT_TY, POW2,
                   in_range, int_tdiv, wrap, floor_shr, pow2_lemmas)

F64 = z3.Float64()


def ret(v, path):
    return [('ret', v, path)]


def strip_generics_c(ty):
    depth = 0
    out = ''
    for c in ty:
        if c == '<':
            depth += 1
        elif c == '>':
            depth -= 1
        elif depth == 0:
            out += c
    return out


def fork2(ex, path, cond, v_true, v_false):
    out = []
    cond = z3.simplify(cond)
    if z3.is_true(cond):
        return [('ret', v_true, path)]
    if z3.is_false(cond):
        return [('ret', v_false, path)]
    for c, v in ((cond, v_true), (z3.Not(cond), v_false)):
        p = path.add(c)
        if ex.feasible(p.conds):
            out.append(('ret', v, p))
    return out


def SOME(v):
    return Enum('Some', [v], 'Option')


def NONE():
    return Enum('None', [], 'Option')


def OK(v):
    return Enum('Ok', [v], 'Result')


def ERR(v):
    return Enum('Err', [v], 'Result')


def d(ex, v):
    return ex.deref(ex.cur_mem, v)


def as_big(ex, v):
    v = d(ex, v)
    while isinstance(v, Struct) and len(v.fields) == 1:
        v = d(ex, v.fields[0])
    if not isinstance(v, Big):
        raise Unsupported(f'expected BigInt, got {v}')
    return v


def to_int_term(ex, a, signed, w=None):
    """machine integer -> Big term in the current mode"""
    if z3.is_int(a):
        return a
    if ex.intmode:
        raise Unsupported('bit-vector in integer mode')
    bw = ex.bigw
    if a.size() == bw:
        return a
    if a.size() > bw:
        raise Unsupported('machine int wider than bigw')
    return z3.SignExt(bw - a.size(), a) if signed else z3.ZeroExt(bw - a.size(), a)


def big_fits(ex, v, w, sg):
    """does Big term v fit an integer type of width w"""
    if ex.intmode:
        return in_range(v, w, sg)
    bw = ex.bigw
    if sg:
        lo, hi = z3.BitVecVal(-(1 << (w - 1)), bw), z3.BitVecVal((1 << (w - 1)) - 1, bw)
    else:
        lo, hi = z3.BitVecVal(0, bw), z3.BitVecVal((1 << w) - 1, bw)
    return z3.And(v >= lo, v <= hi)


def big_to_machine(ex, v, w):
    if ex.intmode:
        return v
    return z3.Extract(w - 1, 0, v)


# ----------------------------------------------------------------------------- num_bigint
def c_big_from(ex, st, args, path, callee):
    mm = re.search(r'From<(\w+)>', callee)
    ty = mm.group(1) if mm else 'i32'
    return ret(Big(to_int_term(ex, args[0], INT_TY[ty][1])), path)


def big_operand(ex, v):
    if z3.is_expr(v):
        return to_int_term(ex, v, True)
    return as_big(ex, v).t


def c_big_bin(op):
    def f(ex, st, args, path, callee):
        a = as_big(ex, args[0]).t
        b = big_operand(ex, args[1])
        if not ex.intmode and op in ('add', 'sub', 'mul', 'div', 'rem'):
            # wide bit-vectors: exact as long as no overflow of the stated width -> checked by a guard
            bw = ex.bigw
            if op in ('add', 'sub'):
                r = (a + b) if op == 'add' else (a - b)
                ovf = z3.Not(z3.BVAddNoOverflow(a, b, True) if op == 'add' else z3.BVSubNoOverflow(a, b))
                unf = z3.Not(z3.BVAddNoUnderflow(a, b) if op == 'add' else z3.BVSubNoUnderflow(a, b, True))
                out_of_bound = path.add(z3.Or(ovf, unf))
                if ex.feasible(out_of_bound.conds):
                    path = path.add(z3.Not(z3.Or(ovf, unf)))
                    path.notes.append(f'bound: BigInt {op} result assumed within {bw} bits')
                return ret(Big(r), path)
            raise Unsupported(f'BigInt {op} in bit-vector mode')
        if op == 'add':
            r = a + b
        elif op == 'sub':
            r = a - b
        elif op == 'mul':
            r = a * b
        elif op in ('div', 'rem'):
            bad = path.add(b == 0)
            if ex.feasible(bad.conds):
                ex.add_panic(bad, 'BigInt division by zero', callee)
            path = path.add(b != 0)
            if not ex.feasible(path.conds):
                return []
            q = int_tdiv(a, b)
            r = q if op == 'div' else a - b * q
        elif op in ('and', 'or', 'xor'):
            if ex.intmode:
                raise Unsupported('BigInt bit op in integer mode')
            r = {'and': a & b, 'or': a | b, 'xor': a ^ b}[op]
        return ret(Big(r), path)
    return f


def c_big_neg(ex, st, args, path, callee):
    a = as_big(ex, args[0]).t
    return ret(Big(-a), path)


def c_big_not(ex, st, args, path, callee):
    a = as_big(ex, args[0]).t
    return ret(Big((-a - 1) if ex.intmode else ~a), path)


def c_big_abs(ex, st, args, path, callee):
    a = as_big(ex, args[0]).t
    return ret(Big(z3.If(a < 0, -a, a)), path)


def c_big_clone(ex, st, args, path, callee):
    return ret(Big(as_big(ex, args[0]).t), path)


def c_big_is_zero(ex, st, args, path, callee):
    return ret(as_big(ex, args[0]).t == 0, path)


def c_big_is_negative(ex, st, args, path, callee):
    return ret(as_big(ex, args[0]).t < 0, path)


def c_big_is_positive(ex, st, args, path, callee):
    return ret(as_big(ex, args[0]).t > 0, path)


def c_big_cmp(ex, st, args, path, callee):
    a, b = as_big(ex, args[0]).t, as_big(ex, args[1]).t
    o = ex.ordering_of(a < b, a == b)
    if callee.endswith('partial_cmp'):
        return ret(SOME(o), path)
    return ret(o, path)


def c_big_eq(neg):
    def f(ex, st, args, path, callee):
        a, b = as_big(ex, args[0]).t, as_big(ex, args[1]).t
        return ret((a != b) if neg else (a == b), path)
    return f


def c_big_sign(ex, st, args, path, callee):
    a = as_big(ex, args[0]).t
    out = []
    for name, c in (('Minus', a < 0), ('NoSign', a == 0), ('Plus', a > 0)):
        p = path.add(c)
        if ex.feasible(p.conds):
            out.append(('ret', Enum(name, [], 'Sign'), p))
    return out


def c_sign_eq(neg):
    def f(ex, st, args, path, callee):
        a, b = d(ex, args[0]), d(ex, args[1])
        r = (a.variant == b.variant)
        return ret(z3.BoolVal(r != neg), path)
    return f


def c_big_shl(ex, st, args, path, callee):
    if not ex.intmode:
        raise Unsupported('BigInt << in bit-vector mode')
    k = args[1]
    ex.extra_lemmas += pow2_lemmas(k)
    return ret(Big(as_big(ex, args[0]).t * POW2(k)), path)


def c_big_shr(ex, st, args, path, callee):
    if not ex.intmode:
        raise Unsupported('BigInt >> in bit-vector mode')
    k = args[1]
    ex.extra_lemmas += pow2_lemmas(k)
    return ret(Big(floor_shr(as_big(ex, args[0]).t, POW2(k))), path)


BITS = z3.Function('bitlen', z3.IntSort(), z3.IntSort())


def c_big_bits(ex, st, args, path, callee):
    """BigInt::bits = bit length of the magnitude: an uninterpreted function with the threshold lemmas bits(x) <= c <=> |x| < 2^c"""
    if not ex.intmode:
        raise Unsupported('BigInt::bits in bit-vector mode')
    a = as_big(ex, args[0]).t
    mag = z3.If(a < 0, -a, a)
    k = BITS(mag)
    ex.extra_lemmas += [k >= 0] + [(k <= c) == (mag < (1 << c)) for c in (0, 1, 7, 8, 15, 16, 31, 32, 33, 63, 64, 65, 127, 128)]
    return ret(k, path)


def c_big_to_prim(ex, st, args, path, callee):
    mm = re.search(r'::to_([iu]\d+|[iu]size)$', callee)
    ty = mm.group(1)
    w, sg = INT_TY[ty]
    v = as_big(ex, args[0]).t
    return fork2(ex, path, big_fits(ex, v, w, sg), SOME(big_to_machine(ex, v, w)), NONE())


def c_prim_try_from(ex, st, args, path, callee):
    """<iN/uN as TryFrom<T>>::try_from, T a machine integer or &BigInt"""
    mm = re.match(r'^<([iu]\d+|[iu]size) as TryFrom<(.+)>>::try_from$', callee)
    w, sg = INT_TY[mm.group(1)]
    src = mm.group(2).strip()
    a = d(ex, args[0])
    err = ERR(Opaque('TryFromIntError'))
    if isinstance(a, (Big, Struct)):
        v = as_big(ex, a).t
        return fork2(ex, path, big_fits(ex, v, w, sg), OK(big_to_machine(ex, v, w)), err)
    if src not in INT_TY:
        raise Unsupported(f'try_from source type {src}')
    w1, s1 = INT_TY[src]
    if z3.is_int(a):
        return fork2(ex, path, in_range(a, w, sg), OK(a), err)
    # bit-vector
    wide = max(w, w1) + 1
    ext = (lambda x: z3.SignExt(wide - w1, x)) if s1 else (lambda x: z3.ZeroExt(wide - w1, x))
    av = ext(a)
    lo = -(1 << (w - 1)) if sg else 0
    hi = (1 << (w - 1)) - 1 if sg else (1 << w) - 1
    fits = z3.And(av >= z3.BitVecVal(lo, wide), av <= z3.BitVecVal(hi, wide))
    x = z3.Extract(w - 1, 0, a) if w <= w1 else (z3.SignExt(w - w1, a) if s1 else z3.ZeroExt(w - w1, a))
    return fork2(ex, path, fits, OK(x), err)


def c_big_to_f64(ex, st, args, path, callee):
    if ex.intmode:
        raise Unsupported('BigInt::to_f64 in integer mode')
    b = as_big(ex, args[0]).t
    return ret(SOME(z3.fpSignedToFP(z3.RNE(), b, F64)), path)


def c_big_from_f64(ex, st, args, path, callee):
    """BigInt::from_f64: None for non-finite, else truncation toward zero.
    Bit-vector mode bound: |f| < 2^(bigw-1) is assumed (noted on the path)."""
    if ex.intmode:
        raise Unsupported('BigInt::from_f64 in integer mode')
    f = args[0]
    bw = ex.bigw
    finite = z3.Not(z3.Or(z3.fpIsNaN(f), z3.fpIsInf(f)))
    out = []
    p = path.add(z3.Not(finite))
    if ex.feasible(p.conds):
        out.append(('ret', NONE(), p))
    lim = z3.FPVal(float(1 << (bw - 2)), F64)
    p = path.add(z3.And(finite, z3.fpLT(z3.fpAbs(f), lim)))
    p.notes.append(f'bound: BigInt::from_f64 argument assumed |f| < 2^{bw - 2}')
    if ex.feasible(p.conds):
        out.append(('ret', SOME(Big(z3.fpToSBV(z3.RTZ(), f, z3.BitVecSort(bw)))), p))
    return out


BIGINT = [
    ('num_bigint::BigInt::from<iN/uN> = the integer', r'^<num_bigint::BigInt as From<\w+>>::from$', c_big_from),
    ('num_bigint::BigInt + = mathematical', r'^<(&)?(\'\w+ )?num_bigint::BigInt as (std::ops::)?Add(<.*>)?>::add$', c_big_bin('add')),
    ('num_bigint::BigInt - = mathematical', r'^<(&)?(\'\w+ )?num_bigint::BigInt as (std::ops::)?Sub(<.*>)?>::sub$', c_big_bin('sub')),
    ('num_bigint::BigInt * = mathematical', r'^<(&)?(\'\w+ )?num_bigint::BigInt as (std::ops::)?Mul(<.*>)?>::mul$', c_big_bin('mul')),
    ('num_bigint::BigInt / = truncating, /0 panics', r'^<(&)?(\'\w+ )?num_bigint::BigInt as (std::ops::)?Div(<.*>)?>::div$', c_big_bin('div')),
    ('num_bigint::BigInt % = truncating, %0 panics', r'^<(&)?(\'\w+ )?num_bigint::BigInt as (std::ops::)?Rem(<.*>)?>::rem$', c_big_bin('rem')),
    ('num_bigint::BigInt & = two\'s complement', r'^<(&)?(\'\w+ )?num_bigint::BigInt as (std::ops::)?BitAnd(<.*>)?>::bitand$', c_big_bin('and')),
    ('num_bigint::BigInt | = two\'s complement', r'^<(&)?(\'\w+ )?num_bigint::BigInt as (std::ops::)?BitOr(<.*>)?>::bitor$', c_big_bin('or')),
    ('num_bigint::BigInt ^ = two\'s complement', r'^<(&)?(\'\w+ )?num_bigint::BigInt as (std::ops::)?BitXor(<.*>)?>::bitxor$', c_big_bin('xor')),
    ('num_bigint::BigInt neg', r'^<(&)?(\'\w+ )?num_bigint::BigInt as (std::ops::)?Neg>::neg$', c_big_neg),
    ('num_bigint::BigInt ! = -x-1', r'^<(&)?(\'\w+ )?num_bigint::BigInt as (std::ops::)?Not>::not$', c_big_not),
    ('num_bigint::BigInt abs', r'BigInt as (num_traits::)?Signed>::abs$', c_big_abs),
    ('num_bigint::BigInt clone', r'^<num_bigint::BigInt as (std::clone::)?Clone>::clone$', c_big_clone),
    ('num_bigint::BigInt is_zero', r'BigInt as (num_traits::)?Zero>::is_zero$', c_big_is_zero),
    ('num_bigint::BigInt is_negative', r'BigInt as (num_traits::)?Signed>::is_negative$', c_big_is_negative),
    ('num_bigint::BigInt is_positive', r'BigInt as (num_traits::)?Signed>::is_positive$', c_big_is_positive),
    ('num_bigint::BigInt sign', r'^num_bigint::BigInt::sign$', c_big_sign),
    ('num_bigint::BigInt Ord', r'BigInt as (std::cmp::)?(Ord|PartialOrd)>::(cmp|partial_cmp)$', c_big_cmp),
    ('num_bigint::BigInt ==', r'BigInt as (std::cmp::)?PartialEq>::eq$', c_big_eq(False)),
    ('num_bigint::BigInt !=', r'BigInt as (std::cmp::)?PartialEq>::ne$', c_big_eq(True)),
    ('num_bigint::Sign ==', r'^<num_bigint::Sign as PartialEq>::eq$', c_sign_eq(False)),
    ('num_bigint::Sign !=', r'^<num_bigint::Sign as PartialEq>::ne$', c_sign_eq(True)),
    ('num_bigint::BigInt << u64 = x*2^k', r'BigInt as (std::ops::)?Shl<u64>>::shl$', c_big_shl),
    ('num_bigint::BigInt >> u64 = floor(x/2^k)', r'BigInt as (std::ops::)?Shr<u64>>::shr$', c_big_shr),
    ('num_bigint::BigInt::bits = bit length of |x|', r'^num_bigint::BigInt::bits$', c_big_bits),
    ('num_bigint::BigInt to_iN/uN = Some iff fits', r'BigInt as (num_traits::)?ToPrimitive>::to_([iu]\d+|[iu]size)$', c_big_to_prim),
    ('num_bigint::BigInt to_f64 = round to nearest even', r'BigInt as (num_traits::)?ToPrimitive>::to_f64$', c_big_to_f64),
    ('num_bigint::BigInt from_f64 = truncate, None if not finite', r'BigInt as (num_traits::)?FromPrimitive>::from_f64$', c_big_from_f64),
    ('iN/uN::try_from(machine int or &BigInt) = Ok iff fits', r'^<([iu]\d+|[iu]size) as TryFrom<.*>>::try_from$', c_prim_try_from),
]


# ----------------------------------------------------------------------------- core integers
def c_checked(op):
    def f(ex, st, args, path, callee):
        mm = re.search(r'impl ([iu]\w+)>', callee)
        ty = mm.group(1)
        w, sg = INT_TY[ty]
        a = args[0]
        b = args[1] if len(args) > 1 else None
        if z3.is_int(a):
            if op in ('add', 'sub', 'mul'):
                full = {'add': a + b, 'sub': a - b, 'mul': a * b}[op]
                return fork2(ex, path, in_range(full, w, sg), SOME(full), NONE())
            if op == 'neg':
                return fork2(ex, path, in_range(-a, w, sg), SOME(-a), NONE())
            if op == 'abs':
                v = z3.If(a < 0, -a, a)
                return fork2(ex, path, in_range(v, w, sg), SOME(v), NONE())
            if op == 'div':
                q = int_tdiv(a, b)
                return fork2(ex, path, z3.And(b != 0, in_range(q, w, sg)), SOME(q), NONE())
            if op == 'rem':
                q = int_tdiv(a, b)
                return fork2(ex, path, z3.And(b != 0, in_range(q, w, sg)), SOME(a - b * q), NONE())
            if op in ('shl', 'shr'):
                okk = z3.And(b >= 0, b < w)
                ex.extra_lemmas += pow2_lemmas(b)
                val = wrap(a * POW2(b), w, sg) if op == 'shl' else floor_shr(a, POW2(b))
                return fork2(ex, path, okk, SOME(val), NONE())
            raise Unsupported('int-mode checked ' + op)
        mn = z3.BitVecVal(-(1 << (w - 1)), w)
        if op in ('add', 'sub', 'mul'):
            r = ex.binop({'add': 'AddWithOverflow', 'sub': 'SubWithOverflow', 'mul': 'MulWithOverflow'}[op], a, b, ty, st)
            return fork2(ex, path, z3.Not(r[2]), SOME(r[1]), NONE())
        if op == 'neg':
            return fork2(ex, path, (a != mn) if sg else (a == 0), SOME(-a), NONE())
        if op == 'abs':
            return fork2(ex, path, a != mn, SOME(z3.If(a < 0, -a, a)), NONE())
        if op in ('div', 'rem'):
            if sg:
                ok = z3.And(b != 0, z3.Not(z3.And(a == mn, b == -1)))
                val = (a / b) if op == 'div' else z3.SRem(a, b)
            else:
                ok = b != 0
                val = z3.UDiv(a, b) if op == 'div' else z3.URem(a, b)
            return fork2(ex, path, ok, SOME(val), NONE())
        if op in ('shl', 'shr'):
            bb = b if b.size() == w else (z3.ZeroExt(w - b.size(), b) if b.size() < w else z3.Extract(w - 1, 0, b))
            ok = z3.ULT(b, z3.BitVecVal(w, b.size()))
            val = (a << bb) if op == 'shl' else ((a >> bb) if sg else z3.LShR(a, bb))
            return fork2(ex, path, ok, SOME(val), NONE())
        raise Unsupported(op)
    return f


def c_wrapping(op):
    def f(ex, st, args, path, callee):
        mm = re.search(r'impl ([iu]\w+)>', callee)
        w, sg = INT_TY[mm.group(1)]
        a = args[0]
        b = args[1] if len(args) > 1 else None
        if z3.is_int(a):
            if op == 'neg':
                return ret(wrap(-a, w, sg), path)
            return ret(wrap({'mul': a * b, 'add': a + b, 'sub': a - b}[op], w, sg), path)
        if op == 'neg':
            return ret(-a, path)
        if op == 'mul' and a.size() == 64 and getattr(ex, 'abstract_mul64', False):
            return ret(MUL64(a, b), path)
        return ret({'mul': a * b, 'add': a + b, 'sub': a - b}[op], path)
    return f


MUL64 = z3.Function('mul64', z3.BitVecSort(64), z3.BitVecSort(64), z3.BitVecSort(64))


def c_saturating(op):
    def f(ex, st, args, path, callee):
        mm = re.search(r'impl ([iu]\w+)>', callee)
        w, sg = INT_TY[mm.group(1)]
        a, b = args
        lo = -(1 << (w - 1)) if sg else 0
        hi = (1 << (w - 1)) - 1 if sg else (1 << w) - 1
        if z3.is_int(a):
            full = {'add': a + b, 'sub': a - b, 'mul': a * b}[op]
            if op == 'mul' and not z3.is_int_value(z3.simplify(a)) and not z3.is_int_value(z3.simplify(b)):
                ex.products.append((a, b))
            return ret(z3.If(full > hi, z3.IntVal(hi), z3.If(full < lo, z3.IntVal(lo), full)), path)
        raise Unsupported('saturating op in bit-vector mode')
    return f


def c_overflowing(op):
    def f(ex, st, args, path, callee):
        mm = re.search(r'impl ([iu]\w+)>', callee)
        ty = mm.group(1)
        r = ex.binop({'add': 'AddWithOverflow', 'sub': 'SubWithOverflow', 'mul': 'MulWithOverflow'}[op], args[0], args[1], ty, st)
        return ret(Struct([r[1], r[2]]), path)
    return f


def c_signum(ex, st, args, path, callee):
    a = args[0]
    if z3.is_int(a):
        return ret(z3.If(a > 0, z3.IntVal(1), z3.If(a < 0, z3.IntVal(-1), z3.IntVal(0))), path)
    if z3.is_fp(a):
        one = z3.FPVal(1.0, F64)
        return ret(z3.If(z3.fpIsNaN(a), a, z3.If(z3.fpIsNegative(a), z3.fpNeg(one), one)), path)
    w = a.size()
    return ret(z3.If(a > 0, z3.BitVecVal(1, w), z3.If(a < 0, z3.BitVecVal(-1, w), z3.BitVecVal(0, w))), path)


def c_unsigned_abs(ex, st, args, path, callee):
    a = args[0]
    return ret(z3.If(a < 0, -a, a), path)


def c_int_abs(ex, st, args, path, callee):
    mm = re.search(r'impl ([iu]\w+)>', callee)
    w, sg = INT_TY[mm.group(1)]
    a = args[0]
    if z3.is_int(a):
        bad = path.add(a == -(1 << (w - 1)))
        if ex.feasible(bad.conds):
            ex.add_panic(bad, 'attempt to negate with overflow (abs)', callee)
        return ret(z3.If(a < 0, -a, a), path.add(a != -(1 << (w - 1))))
    mn = z3.BitVecVal(-(1 << (w - 1)), w)
    bad = path.add(a == mn)
    if ex.feasible(bad.conds):
        ex.add_panic(bad, 'attempt to negate with overflow (abs)', callee)
    return ret(z3.If(a < 0, -a, a), path.add(a != mn))


def c_rotl(ex, st, args, path, callee):
    a, k = args
    if z3.is_int(a):
        raise Unsupported('rotate_left in integer mode')
    kk = z3.ZeroExt(a.size() - k.size(), k) if k.size() < a.size() else k
    return ret(z3.RotateLeft(a, kk), path)


def c_is_multiple_of(ex, st, args, path, callee):
    a, b = args
    if z3.is_int(a):
        # divisibility through a shared uninterpreted predicate (the oracle uses the same one); a sat answer
        # is re-decided with the definition `divides(b, a) = (a mod b = 0)` instantiated (ex.uf_defs)
        app = DIVIDES(b, a)
        ex.uf_defs.append(app == (a % b == 0))
        return ret(z3.If(b == 0, a == 0, app), path)
    return ret(z3.If(b == 0, a == 0, z3.URem(a, b) == 0), path)


def c_prim_cmp(ex, st, args, path, callee):
    mm = re.match(r'^<([iu]\w+) as', callee)
    sg = INT_TY[mm.group(1)][1]
    a, b = d(ex, args[0]), d(ex, args[1])
    a = ex.mk_int(a[1], mm.group(1)) if isinstance(a, tuple) and a[0] == 'discr' else a
    b = ex.mk_int(b[1], mm.group(1)) if isinstance(b, tuple) and b[0] == 'discr' else b
    if z3.is_int(a) or sg:
        lt = a < b
    else:
        lt = z3.ULT(a, b)
    o = ex.ordering_of(lt, a == b)
    return ret(SOME(o) if callee.endswith('partial_cmp') else o, path)


def c_prim_cmp_bool(op):
    def f(ex, st, args, path, callee):
        mm = re.match(r'^<([iu]\w+) as', callee)
        sg = INT_TY[mm.group(1)][1]
        a, b = d(ex, args[0]), d(ex, args[1])
        if z3.is_int(a) or sg:
            r = {'lt': a < b, 'le': a <= b, 'gt': a > b, 'ge': a >= b, 'eq': a == b, 'ne': a != b}[op]
        else:
            r = {'lt': z3.ULT(a, b), 'le': z3.ULE(a, b), 'gt': z3.UGT(a, b), 'ge': z3.UGE(a, b), 'eq': a == b, 'ne': a != b}[op]
        return ret(r, path)
    return f


def c_minmax(which):
    def f(ex, st, args, path, callee):
        a, b = args
        mm = re.search(r'::<([iu]\w+)>$', callee) or re.match(r'^<([iu]\w+) as', callee)
        sg = INT_TY[mm.group(1)][1] if mm else True
        if z3.is_int(a) or sg:
            le = a <= b
        else:
            le = z3.ULE(a, b)
        if which == 'min':
            return ret(z3.If(le, a, b), path)
        return ret(z3.If(le, b, a), path)   # max returns b when equal
    return f


def c_int_try_into(ex, st, args, path, callee):
    mm = re.match(r'^<([iu]\w+) as TryInto<([iu]\w+)>>::try_into$', callee)
    return c_prim_try_from(ex, st, args, path, f'<{mm.group(2)} as TryFrom<{mm.group(1)}>>::try_from')


def c_int_from(ex, st, args, path, callee):
    """<i64 as From<i32>>::from etc.: widening"""
    mm = re.match(r'^<([iu]\w+) as From<([iu]\w+|bool)>>::from$', callee)
    to, frm = mm.group(1), mm.group(2)
    a = args[0]
    if z3.is_int(a):
        return ret(a, path)
    if frm == 'bool':
        return ret(z3.If(a, ex.mk_int(1, to), ex.mk_int(0, to)), path)
    return ret(ex.cast(a, frm, to, 'IntToInt'), path)


def c_int_default(ex, st, args, path, callee):
    mm = re.match(r'^<([iu]\w+) as Default>::default$', callee)
    return ret(ex.mk_int(0, mm.group(1)), path)


CORE_INT = [
    ('core iN::default = 0', r'^<[iu]\w+ as Default>::default$', c_int_default),
    ('core iN::checked_add', r'^core::num::<impl [iu]\w+>::checked_add$', c_checked('add')),
    ('core iN::checked_sub', r'^core::num::<impl [iu]\w+>::checked_sub$', c_checked('sub')),
    ('core iN::checked_mul', r'^core::num::<impl [iu]\w+>::checked_mul$', c_checked('mul')),
    ('core iN::checked_neg', r'^core::num::<impl [iu]\w+>::checked_neg$', c_checked('neg')),
    ('core iN::checked_abs', r'^core::num::<impl [iu]\w+>::checked_abs$', c_checked('abs')),
    ('core iN::checked_div', r'^core::num::<impl [iu]\w+>::checked_div$', c_checked('div')),
    ('core iN::checked_rem', r'^core::num::<impl [iu]\w+>::checked_rem$', c_checked('rem')),
    ('core iN::checked_shl', r'^core::num::<impl [iu]\w+>::checked_shl$', c_checked('shl')),
    ('core iN::checked_shr', r'^core::num::<impl [iu]\w+>::checked_shr$', c_checked('shr')),
    ('core iN::wrapping_mul', r'^core::num::<impl [iu]\w+>::wrapping_mul$', c_wrapping('mul')),
    ('core iN::wrapping_add', r'^core::num::<impl [iu]\w+>::wrapping_add$', c_wrapping('add')),
    ('core iN::wrapping_sub', r'^core::num::<impl [iu]\w+>::wrapping_sub$', c_wrapping('sub')),
    ('core iN::wrapping_neg', r'^core::num::<impl [iu]\w+>::wrapping_neg$', c_wrapping('neg')),
    ('core iN::saturating_add', r'^core::num::<impl [iu]\w+>::saturating_add$', c_saturating('add')),
    ('core iN::saturating_sub', r'^core::num::<impl [iu]\w+>::saturating_sub$', c_saturating('sub')),
    ('core iN::saturating_mul', r'^core::num::<impl [iu]\w+>::saturating_mul$', c_saturating('mul')),
    ('core iN::overflowing_add', r'^core::num::<impl [iu]\w+>::overflowing_add$', c_overflowing('add')),
    ('core iN::overflowing_sub', r'^core::num::<impl [iu]\w+>::overflowing_sub$', c_overflowing('sub')),
    ('core iN::overflowing_mul', r'^core::num::<impl [iu]\w+>::overflowing_mul$', c_overflowing('mul')),
    ('core iN::signum', r'^core::num::<impl i\w+>::signum$', c_signum),
    ('core iN::unsigned_abs', r'^core::num::<impl i\w+>::unsigned_abs$', c_unsigned_abs),
    ('core iN::abs (panics on MIN with overflow checks)', r'^core::num::<impl i\w+>::abs$', c_int_abs),
    ('core uN::rotate_left', r'^core::num::<impl u\d+>::rotate_left$', c_rotl),
    ('core uN::is_multiple_of', r'^core::num::<impl u\w+>::is_multiple_of$', c_is_multiple_of),
    ('core iN Ord::cmp / partial_cmp', r'^<[iu]\w+ as (std::cmp::)?(Ord|PartialOrd)>::(cmp|partial_cmp)$', c_prim_cmp),
    ('core iN PartialOrd::lt', r'^<[iu]\w+ as (std::cmp::)?PartialOrd>::lt$', c_prim_cmp_bool('lt')),
    ('core iN PartialOrd::le', r'^<[iu]\w+ as (std::cmp::)?PartialOrd>::le$', c_prim_cmp_bool('le')),
    ('core iN PartialOrd::gt', r'^<[iu]\w+ as (std::cmp::)?PartialOrd>::gt$', c_prim_cmp_bool('gt')),
    ('core iN PartialOrd::ge', r'^<[iu]\w+ as (std::cmp::)?PartialOrd>::ge$', c_prim_cmp_bool('ge')),
    ('core iN PartialEq::eq', r'^<[iu]\w+ as (std::cmp::)?PartialEq>::eq$', c_prim_cmp_bool('eq')),
    ('core iN PartialEq::ne', r'^<[iu]\w+ as (std::cmp::)?PartialEq>::ne$', c_prim_cmp_bool('ne')),
    ('core cmp::min', r'^(std|core)::cmp::min::<[iu]\w+>$', c_minmax('min')),
    ('core cmp::max', r'^(std|core)::cmp::max::<[iu]\w+>$', c_minmax('max')),
    ('core Ord::min', r'^<[iu]\w+ as (std::cmp::)?Ord>::min$', c_minmax('min')),
    ('core Ord::max', r'^<[iu]\w+ as (std::cmp::)?Ord>::max$', c_minmax('max')),
    ('iN::try_into(uM) = Ok iff fits', r'^<[iu]\w+ as TryInto<[iu]\w+>>::try_into$', c_int_try_into),
    ('core iN::from(narrower) = widening', r'^<[iu]\w+ as From<([iu]\w+|bool)>>::from$', c_int_from),
]


# ----------------------------------------------------------------------------- floats
def c_f64(meth):
    def f(ex, st, args, path, callee):
        a = d(ex, args[0])
        if meth == 'is_nan':
            return ret(z3.fpIsNaN(a), path)
        if meth == 'is_infinite':
            return ret(z3.fpIsInf(a), path)
        if meth == 'is_finite':
            return ret(z3.Not(z3.Or(z3.fpIsInf(a), z3.fpIsNaN(a))), path)
        if meth == 'to_bits':
            return ret(ex.fp_to_bits(a), path)
        if meth == 'from_bits':
            return ret(z3.fpBVToFP(a, F64), path)
        if meth == 'floor':
            return ret(z3.fpRoundToIntegral(z3.RTN(), a), path)
        if meth == 'ceil':
            return ret(z3.fpRoundToIntegral(z3.RTP(), a), path)
        if meth == 'trunc':
            return ret(z3.fpRoundToIntegral(z3.RTZ(), a), path)
        if meth == 'abs':
            return ret(z3.fpAbs(a), path)
        if meth == 'fract':
            return ret(z3.fpSub(z3.RNE(), a, z3.fpRoundToIntegral(z3.RTZ(), a)), path)
        if meth == 'is_sign_negative':
            return ret(z3.fpIsNegative(a), path)
        raise Unsupported(meth)
    return f


def c_f64_partial_cmp(ex, st, args, path, callee):
    a, b = d(ex, args[0]), d(ex, args[1])
    nan = z3.Or(z3.fpIsNaN(a), z3.fpIsNaN(b))
    o = ex.ordering_of(z3.fpLT(a, b), z3.fpEQ(a, b))
    return fork2(ex, path, nan, NONE(), SOME(o))


def c_f64_cmpop(op):
    def f(ex, st, args, path, callee):
        a, b = d(ex, args[0]), d(ex, args[1])
        r = {'lt': z3.fpLT, 'le': z3.fpLEQ, 'gt': z3.fpGT, 'ge': z3.fpGEQ, 'eq': z3.fpEQ,
             'ne': lambda x, y: z3.Not(z3.fpEQ(x, y))}[op](a, b)
        return ret(r, path)
    return f


CORE_F64 = [(f'core f64::{m}', rf'^(core|std)::f64::<impl f64>::{m}$', c_f64(m))
            for m in ('is_nan', 'is_infinite', 'is_finite', 'to_bits', 'from_bits', 'floor', 'ceil', 'trunc', 'abs', 'fract', 'is_sign_negative')]
CORE_F64 += [
    ('core f64::signum', r'^(core|std)::f64::<impl f64>::signum$', c_signum),
    ('core f64 partial_cmp', r'^<f64 as (std::cmp::)?PartialOrd>::partial_cmp$', c_f64_partial_cmp),
] + [(f'core f64 {op}', rf'^<f64 as (std::cmp::)?Partial(Ord|Eq)>::{op}$', c_f64_cmpop(op)) for op in ('lt', 'le', 'gt', 'ge', 'eq', 'ne')]


# ----------------------------------------------------------------------------- Option / Result / control flow
def c_and_then(ex, st, args, path, callee):
    o = args[0]
    if o.variant == 'None':
        return ret(NONE(), path)
    return ex.run_closure(callee, [args[1], o.fields[0]], path, st['mem'])


def c_opt_map(ex, st, args, path, callee):
    o = args[0]
    if o.variant in ('None',):
        return ret(NONE(), path)
    if o.variant == 'Err':
        return ret(o, path)
    wrapv = SOME if o.variant == 'Some' else OK
    if '{closure@' not in callee and len(args) > 1 and isinstance(args[1], Opaque) and args[1].why.startswith('fnitem '):
        path_ = strip_generics_c(args[1].why[7:]).split('::')
        name = path_[-1].strip()
        if name[:1].isupper() and len(path_) >= 2:        # tuple-variant / tuple-struct constructor
            return ret(wrapv(Enum(name, [o.fields[0]], path_[-2].strip())), path)
        outs = ex.call(st, args[1].why[7:], [o.fields[0]], path, 1)
        return [('ret', wrapv(r[1]), r[2], r[3]) for r in outs]
    if '{closure@' not in callee:
        mm = re.search(r'::map::<[^,]+, (.+)>$', callee)
        if not mm:
            raise Unsupported('map with non-closure ' + callee)
        fnname = mm.group(1).strip()
        if re.search(r'::(Some|Ok)$', fnname):
            w2 = SOME if fnname.endswith('Some') else OK
            return ret(wrapv(w2(o.fields[0])), path)
        outs = ex.call(st, fnname, [o.fields[0]], path, 1)
        return [('ret', wrapv(r[1]), r[2], r[3]) for r in outs]
    return [('ret', wrapv(r[1]), r[2], r[3]) for r in ex.run_closure(callee, [args[1], o.fields[0]], path, st['mem'])]


def c_map_err(ex, st, args, path, callee):
    r = args[0]
    if r.variant == 'Ok':
        return ret(r, path)
    if '{closure@' in callee:
        return [('ret', ERR(x[1]), x[2], x[3]) for x in ex.run_closure(callee, [args[1], r.fields[0]], path, st['mem'])]
    return ret(ERR(Err(callee[:80])), path)


def c_ok_or_else(ex, st, args, path, callee):
    o = args[0]
    if o.variant == 'Some':
        return ret(OK(o.fields[0]), path)
    return [('ret', ERR(x[1]), x[2], x[3]) for x in ex.run_closure(callee, [args[1]], path, st['mem'])]


def c_ok_or(ex, st, args, path, callee):
    o = args[0]
    if o.variant == 'Some':
        return ret(OK(o.fields[0]), path)
    return ret(ERR(args[1]), path)


def c_result_ok(ex, st, args, path, callee):
    r = args[0]
    return ret(SOME(r.fields[0]) if r.variant == 'Ok' else NONE(), path)


def c_try_branch(ex, st, args, path, callee):
    r = args[0]
    if r.variant in ('Ok', 'Some'):
        return ret(Enum('Continue', r.fields[:1] or [Struct([])], 'ControlFlow'), path)
    inner = ERR(r.fields[0]) if r.variant == 'Err' else NONE()
    return ret(Enum('Break', [inner], 'ControlFlow'), path)


def c_from_residual(ex, st, args, path, callee):
    r = args[0]
    if r.variant == 'Err':
        e = r.fields[0]
        return ret(ERR(e), path)
    return ret(NONE(), path)


def c_unwrap(ex, st, args, path, callee):
    o = args[0]
    if isinstance(o, Enum) and o.variant in ('Some', 'Ok'):
        return ret(o.fields[0], path)
    if isinstance(o, Enum):
        if ex.feasible(path.conds):
            ex.add_panic(path, f'unwrap/expect on {o.variant}', callee)
        return []
    raise Unsupported(f'unwrap of {o}')


def c_unwrap_or(ex, st, args, path, callee):
    o = args[0]
    if o.variant in ('Some', 'Ok'):
        return ret(o.fields[0], path)
    return ret(args[1], path)


def c_unwrap_or_default_int(ex, st, args, path, callee):
    o = args[0]
    if o.variant in ('Some', 'Ok'):
        return ret(o.fields[0], path)
    mm = re.search(r'<([iu]\w+)', callee)
    return ret(ex.mk_int(0, mm.group(1)), path)


def c_is_some(which):
    def f(ex, st, args, path, callee):
        o = d(ex, args[0])
        if o.__class__.__name__ == 'SymEnum':
            from .exec import ENUMS
            vs = ENUMS[o.ty]
            return ret(z3.Or([o.tag == vs.index(w) for w in which if w in vs]), path)
        return ret(z3.BoolVal(o.variant in which), path)
    return f


def c_not(ex, st, args, path, callee):
    a = args[0]
    return ret(z3.Not(a) if z3.is_bool(a) else ~a, path)


def c_ne_via_eq(ex, st, args, path, callee):
    out = []
    for r in ex.call(st, callee[:-4] + '::eq', args, path, 1):
        out.append(('ret', z3.Not(r[1]), r[2], r[3]))
    return out


def c_partial_ord_default(ex, st, args, path, callee):
    meth = callee.split('::')[-1]
    want = {'gt': [1], 'ge': [0, 1], 'lt': [-1], 'le': [-1, 0]}[meth]
    out = []
    for r in ex.call(st, callee[:-len(meth) - 2] + '::partial_cmp', args, path, 1):
        o = r[1]
        if o.variant == 'None':
            out.append(('ret', z3.BoolVal(False), r[2], r[3]))
            continue
        ordv = o.fields[0]
        if isinstance(ordv, tuple):
            val = z3.Or([ordv[1] == z3.BitVecVal(w_, 8) for w_ in want])
        else:
            val = z3.BoolVal({'Less': -1, 'Equal': 0, 'Greater': 1}[ordv.variant] in want)
        out.append(('ret', val, r[2], r[3]))
    return out


def ordering_term(o):
    """Ordering value -> 8-bit term"""
    if isinstance(o, tuple) and o[0] == 'ordering':
        return o[1]
    if isinstance(o, Enum) and o.variant in ('Less', 'Equal', 'Greater'):
        return z3.BitVecVal({'Less': -1, 'Equal': 0, 'Greater': 1}[o.variant], 8)
    raise Unsupported(f'not an Ordering: {o}')


def c_ordering_reverse(ex, st, args, path, callee):
    t = ordering_term(args[0])
    return ret(('ordering', -t), path)


def c_ordering_eq(neg):
    def f(ex, st, args, path, callee):
        a, b = ordering_term(d(ex, args[0])), ordering_term(d(ex, args[1]))
        return ret((a != b) if neg else (a == b), path)
    return f


def c_ordering_is(which):
    def f(ex, st, args, path, callee):
        a = ordering_term(d(ex, args[0]))
        vals = {'is_eq': [0], 'is_ne': [-1, 1], 'is_lt': [-1], 'is_gt': [1], 'is_le': [-1, 0], 'is_ge': [0, 1]}[which]
        return ret(z3.Or([a == z3.BitVecVal(v, 8) for v in vals]), path)
    return f


def c_bool_cmp(ex, st, args, path, callee):
    a, b = d(ex, args[0]), d(ex, args[1])
    o = ex.ordering_of(z3.And(z3.Not(a), b), a == b)
    return ret(SOME(o) if callee.endswith('partial_cmp') else o, path)


def c_ident(ex, st, args, path, callee):
    return ret(args[0] if args else Struct([]), path)


def c_unit(ex, st, args, path, callee):
    return ret(Struct([]), path)


def c_err(ex, st, args, path, callee):
    kind = None
    if args:
        a = d(ex, args[0])
        if isinstance(a, Enum):
            kind = a.variant
        elif isinstance(a, Struct) and a.ty:
            kind = a.ty
        elif isinstance(a, Err):
            return ret(a, path)
    return ret(Err(callee[:80], kind), path)


def c_panic(ex, st, args, path, callee):
    if ex.feasible(path.conds):
        ex.add_panic(path, 'explicit panic: ' + callee[:60], callee)
    return []


def c_option_eq(ex, st, args, path, callee):
    """std: `impl PartialEq for Option<T>`: same variant and, for Some, T::eq"""
    a, b = d(ex, args[0]), d(ex, args[1])
    if a.variant != b.variant:
        return ret(z3.BoolVal(False), path)
    if a.variant == 'None':
        return ret(z3.BoolVal(True), path)
    mm = re.match(r'^<(?:std::option::)?Option<(.+)> as PartialEq>::eq$', callee)
    inner = mm.group(1)
    mem = dict(st['mem'])
    ex._tmp = getattr(ex, '_tmp', 0) + 1
    ka, kb = ('tmp', ex._tmp, 'a'), ('tmp', ex._tmp, 'b')
    mem[ka], mem[kb] = a.fields[0], b.fields[0]
    st2 = dict(st)
    st2['mem'] = mem
    return ex.call(st2, f'<{inner} as PartialEq>::eq', [Ref(ka), Ref(kb)], path, 1)


def c_ref_forward(ex, st, args, path, callee):
    """std blanket impls `impl PartialEq/PartialOrd/Ord for &A`: strip one reference level and dispatch again"""
    mm = re.match(r"^<&(?:'\w+ )?(?:mut )?(.+) as ((?:std::cmp::)?(?:PartialEq|PartialOrd|Ord))(<.*>)?>::(\w+)$", callee)
    inner, trait, targ, meth = mm.group(1), mm.group(2), mm.group(3) or '', mm.group(4)
    if targ:
        targ = re.sub(r"^<&(?:'\w+ )?", '<', targ)
    new = f'<{inner} as {trait}{targ}>::{meth}'
    nargs = []
    for a in args:
        if isinstance(a, Ref):
            nargs.append(ex.read_ref(st['mem'], a))
        else:
            nargs.append(a)
    return ex.call(st, new, nargs, path, 1)


CONTROL = [
    ('Option<T> == Option<T> (std derive) via T::eq', r'^<(std::option::)?Option<.+> as PartialEq>::eq$', c_option_eq),
    ('&A: PartialEq/PartialOrd/Ord forwards to A', r"^<&(?:'\w+ )?(?:mut )?.+ as (std::cmp::)?(PartialEq|PartialOrd|Ord)(<.*>)?>::\w+$", c_ref_forward),
    ('Option::and_then (runs the repository closure)', r'^(std::option::)?Option::<.*>::and_then::<', c_and_then),
    ('Option/Result::map (runs the repository closure)', r'^(std::(option|result)::)?(Option|Result)::<.*>::map::<', c_opt_map),
    ('Result::map_err', r'^(std::result::)?Result::<.*>::map_err::<', c_map_err),
    ('Option::ok_or_else (runs the repository closure)', r'^(std::option::)?Option::<.*>::ok_or_else::<', c_ok_or_else),
    ('Option::ok_or', r'^(std::option::)?Option::<.*>::ok_or::<', c_ok_or),
    ('Result::ok', r'^(std::result::)?Result::<.*>::ok$', c_result_ok),
    ('Try::branch', r' as (std::ops::)?Try>::branch$', c_try_branch),
    ('FromResidual::from_residual', r' as (std::ops::)?FromResidual<.*>>::from_residual$', c_from_residual),
    ('Option/Result::unwrap/expect (None/Err = panic edge)', r'^(std::(option|result)::)?(Option|Result)::<.*>::(unwrap|expect)$', c_unwrap),
    ('Option/Result::unwrap_or', r'^(std::(option|result)::)?(Option|Result)::<.*>::unwrap_or$', c_unwrap_or),
    ('Option::<iN>::unwrap_or_default', r'^(std::(option|result)::)?(Option|Result)::<[iu]\w+.*>::unwrap_or_default$', c_unwrap_or_default_int),
    ('Option::is_some', r'^(std::option::)?Option::<.*>::is_some$', c_is_some(('Some',))),
    ('Option::is_none', r'^(std::option::)?Option::<.*>::is_none$', c_is_some(('None',))),
    ('Result::is_ok', r'^(std::result::)?Result::<.*>::is_ok$', c_is_some(('Ok',))),
    ('Result::is_err', r'^(std::result::)?Result::<.*>::is_err$', c_is_some(('Err',))),
    ('bool::not', r'^<bool as (std::ops::)?Not>::not$', c_not),
    ('bool Ord::cmp (false < true)', r'^<bool as (std::cmp::)?(Ord|PartialOrd)>::(cmp|partial_cmp)$', c_bool_cmp),
    ('PartialEq::ne = !eq', r' as PartialEq(<.*>)?>::ne$', c_ne_via_eq),
    ('PartialOrd::{lt,le,gt,ge} via partial_cmp', r' as PartialOrd(<.*>)?>::(gt|ge|lt|le)$', c_partial_ord_default),
    ('Ordering::reverse', r'^(std::cmp::)?Ordering::reverse$', c_ordering_reverse),
    ('Ordering ==', r'^<(std::cmp::)?Ordering as PartialEq>::eq$', c_ordering_eq(False)),
    ('Ordering !=', r'^<(std::cmp::)?Ordering as PartialEq>::ne$', c_ordering_eq(True)),
] + [(f'Ordering::{w}', rf'^(std::cmp::)?Ordering::{w}$', c_ordering_is(w)) for w in ('is_eq', 'is_ne', 'is_lt', 'is_gt', 'is_le', 'is_ge')] + [
    ('intrinsics likely/unlikely/cold_path = identity', r'(intrinsics|hint)::(cold_path|likely|unlikely|black_box)', c_ident),
    ('NonZero::get = identity', r'^(std|core)::num::NonZero::<\w+>::get$', c_ident),
    ('error construction = opaque token', r'anyhow::Error as From<.*>>::from$', c_err),
    ('error construction = opaque token', r'anyhow::__private::', c_err),
    ('error construction = opaque token', r'anyhow::Error::(msg|new)', c_err),
    ('error construction = opaque token', r'^<.* as Into<.*Error>>::into$', c_err),
    ('error construction = opaque token', r'Error as From<.*>>::from$', c_err),
    ('error construction = opaque token', r'starlark_syntax::Error::new_(other|kind|value|native)', c_err),
    ('error construction = opaque token', r'^(crate::)?Error::new_(other|kind|value|native)', c_err),
    ('fmt machinery (message formatting) = opaque value', r'^(core|std|alloc)::fmt::|^(anyhow::__private::)?must_use::<', lambda ex, st, args, path, callee: ret(Opaque('fmt'), path)),
    ('panic entry points', r'^(core|std)::panicking::|^core::option::(unwrap_failed|expect_failed)|^core::result::unwrap_failed|panic_cold|::panic_fmt', c_panic),
]


def compile_contracts(*groups):
    out = []
    for g in groups:
        for name, pat, fn in g:
            out.append((name, re.compile(pat), fn))
    return out


def std_contracts():
    return compile_contracts(BIGINT, CORE_INT, CORE_F64, CONTROL)
