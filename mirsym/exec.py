"""Symbolic executor for the MIR subset used by the encoded kernels (see DESIGN.md §3.1)."""
import copy
import re
import z3

from .mir import parse_header


# ----------------------------------------------------------------------------- helpers
def split_top(s, sep=','):
    """split on sep at nesting depth 0 of () [] {} <>; ignores '->' arrows and quotes"""
    out, depth, cur, i, inq = [], 0, '', 0, False
    while i < len(s):
        c = s[i]
        if inq:
            cur += c
            if c == '\\':
                cur += s[i + 1]
                i += 1
            elif c == '"':
                inq = False
        elif c == '"':
            inq = True
            cur += c
        elif c in '([{':
            depth += 1
            cur += c
        elif c in ')]}':
            depth -= 1
            cur += c
        elif c == '<' and (i + 1 < len(s)) and s[i - 1:i] != ' ':
            depth += 1
            cur += c
        elif c == '>' and s[i - 1:i] not in ('-', '=') and depth > 0 and s[i - 1:i] != ' ':
            depth -= 1
            cur += c
        elif c == sep and depth == 0:
            out.append(cur.strip())
            cur = ''
        else:
            cur += c
        i += 1
    if cur.strip():
        out.append(cur.strip())
    return out


def strip_generics(ty):
    depth = 0
    out = ''
    for c in ty:
        if c == '<':
            depth += 1
        elif c == '>':
            depth -= 1
        elif depth == 0:
            out += c
    return out


def last_seg(ty):
    """last path segment of a type, generics stripped: 'a::b::C<'_>' -> 'C'"""
    ty = ty.strip()
    ty = re.sub(r"^&('\w+ )?(mut )?", '', ty)
    return strip_generics(ty).split('::')[-1].strip()


class Fn:
    def __init__(self, m):
        h = m.header
        self.m = m
        self.name, args, self.ret = parse_header(h)
        self.args = []
        for a in split_top(args):
            if not a:
                continue
            n, t = a.split(':', 1)
            self.args.append((n.strip(), t.strip()))
        self.local_ty = {n: t for n, t in self.args}
        self.local_ty['_0'] = self.ret
        self.blocks = {}
        cur = None
        for ln in m.lines:
            s = ln.strip()
            mm = re.match(r'^let (mut )?(_\d+): (.+);$', s)
            if mm:
                self.local_ty[mm.group(2)] = mm.group(3)
                continue
            mm = re.match(r'^(bb\d+)( \(cleanup\))?: \{$', s)
            if mm:
                cur = mm.group(1)
                self.blocks[cur] = []
                continue
            if cur is None:
                continue
            if s == '}':
                cur = None
                continue
            if s.startswith('//') or s.startswith('debug ') or s.startswith('scope '):
                continue
            # strip trailing span comments
            s = re.sub(r'\s*// .*$', '', s) if '//' in s and '"' not in s else s
            self.blocks[cur].append(s)


# ----------------------------------------------------------------------------- values
class Opaque:
    def __init__(self, why):
        self.why = why

    def __repr__(self):
        return f'Opaque({self.why})'


class Enum:
    def __init__(self, variant, fields, ty=None):
        self.variant = variant
        self.fields = list(fields)
        self.ty = ty

    def __repr__(self):
        return f'{self.ty}::{self.variant}{self.fields}'


class Struct:
    def __init__(self, fields, ty=None):
        self.fields = list(fields)
        self.ty = ty

    def __repr__(self):
        return f'{self.ty or "S"}{self.fields}'


class SymEnum:
    """an enum value whose discriminant is a solver term (payload-free use only: fields read as opaque)"""

    def __init__(self, ty, tag, fields=None):
        self.ty = ty
        self.tag = tag
        self.fields = fields or {}      # payload field index -> value (shared by the variants that have that field)

    def __repr__(self):
        return f'SymEnum({self.ty},{self.tag})'


class Ref:
    def __init__(self, addr, path=()):
        self.addr = addr
        self.path = tuple(path)

    def __repr__(self):
        return f'Ref({self.addr},{self.path})'


class Big:
    """num_bigint::BigInt as a solver term (Int in integer mode, wide BitVec in bit-vector mode)"""

    def __init__(self, t):
        self.t = t

    def __repr__(self):
        return f'Big({self.t})'


class Err:
    """opaque error token naming its construction site"""

    def __init__(self, site, kind=None):
        self.site = site
        self.kind = kind

    def __repr__(self):
        return f'Err({self.kind or self.site})'


class Slice:
    """fat pointer &[T] / Box<[T]>: symbolic length, contents opaque (or a python list of values)"""

    def __init__(self, length, elems=None, tag=None):
        self.length = length
        self.elems = elems
        self.tag = tag

    def __repr__(self):
        return f'Slice(len={self.length},{self.tag})'


ENUMS = {
    'Option': ['None', 'Some'], 'Result': ['Ok', 'Err'], 'ControlFlow': ['Continue', 'Break'],
    'StarlarkInt': ['Small', 'Big'], 'StarlarkIntRef': ['Small', 'Big'],
    'NumRef': ['Int', 'Float'], 'Num': ['Int', 'Float'], 'Sign': ['Minus', 'NoSign', 'Plus'],
    'Either': ['Left', 'Right'], 'EitherOrBoth': ['Both', 'Left', 'Right'],      # itertools declaration order
}
ORDERING = {'Less': -1, 'Equal': 0, 'Greater': 1}

INT_TY = {'i8': (8, True), 'i16': (16, True), 'i32': (32, True), 'i64': (64, True), 'i128': (128, True), 'isize': (64, True),
          'u8': (8, False), 'u16': (16, False), 'u32': (32, False), 'u64': (64, False), 'u128': (128, False), 'usize': (64, False)}


def wrap_mod(x, w, sg):
    m = 1 << w
    if sg:
        h = 1 << (w - 1)
        return ((x + h) % m) - h
    return x % m


def wrap(x, w, sg):
    """two's-complement wrap of a mathematical integer; the in-range case is kept free of `mod`"""
    if z3.is_int_value(x):
        v = x.as_long()
        m = 1 << w
        v %= m
        if sg and v >= (1 << (w - 1)):
            v -= m
        return z3.IntVal(v)
    return z3.If(in_range(x, w, sg), x, wrap_mod(x, w, sg))


def in_range(x, w, sg):
    if sg:
        return z3.And(x >= -(1 << (w - 1)), x <= (1 << (w - 1)) - 1)
    return z3.And(x >= 0, x <= (1 << w) - 1)


def int_tdiv(x, y):
    ax, ay = z3.If(x >= 0, x, -x), z3.If(y >= 0, y, -y)
    q = ax / ay
    return z3.If((x >= 0) == (y >= 0), q, -q)


DIVIDES = z3.Function('divides', z3.IntSort(), z3.IntSort(), z3.BoolSort())    # divides(b, a): b != 0 and b | a
def int_bitop(op, a, b, w, sg):
    """& | ^ on machine integers in integer mode (w <= 64): bit decomposition of the two's-complement patterns.
    Exact; only div/mod by constants are introduced."""
    if w > 64:
        raise Unsupported(f'int-mode bit op {op} at width {w}')
    m = 1 << w
    ua = a % m if sg else a
    ub = b % m if sg else b
    total = z3.IntVal(0)
    for i in range(w):
        ba = (ua / (1 << i)) % 2
        bb = (ub / (1 << i)) % 2
        if op == 'BitAnd':
            bit = z3.If(z3.And(ba == 1, bb == 1), 1, 0)
        elif op == 'BitOr':
            bit = z3.If(z3.Or(ba == 1, bb == 1), 1, 0)
        else:
            bit = z3.If(ba != bb, 1, 0)
        total = total + bit * (1 << i)
    if sg:
        return z3.If(total >= (m >> 1), total - m, total)
    return total


POW2 = z3.Function('pow2', z3.IntSort(), z3.IntSort())
POW2_AXIOMS = [POW2(z3.IntVal(k)) == z3.IntVal(1 << k) for k in range(0, 65)]


def pow2_lemmas(k):
    """lemmas about pow2 instantiated at a shift count term k (k >= 0 assumed where used)"""
    return [z3.Implies(k >= 0, POW2(k) >= 1), z3.Implies(k >= 64, POW2(k) >= (1 << 64)),
            z3.Implies(k >= 32, POW2(k) >= (1 << 32)),
            z3.Implies(z3.And(k >= 0, k <= 64), z3.Or([z3.And(k == j, POW2(k) == (1 << j)) for j in range(65)]))]


def floor_shr(a, p2):
    """floor(a / p2) for p2 >= 1 on Ints (z3 `/` on Int is euclidean: floor for positive divisor)"""
    return a / p2


class Unsupported(Exception):
    pass


class Path:
    __slots__ = ('conds', 'notes')

    def __init__(self, conds=None, notes=None):
        self.conds = list(conds or [])
        self.notes = list(notes or [])

    def clone(self):
        return Path(self.conds, self.notes)

    def add(self, c):
        p = self.clone()
        p.conds.append(c)
        return p


class Panic:
    def __init__(self, conds, msg, fn):
        self.conds = list(conds)
        self.msg = msg
        self.fn = fn

    def __repr__(self):
        return f'Panic({self.msg} in {self.fn})'


# ----------------------------------------------------------------------------- executor
class Exec:
    def __init__(self, db, intmode, bigw=128, feas_timeout_ms=3000):
        self.db = db
        self.intmode = intmode
        self.bigw = bigw
        self.cache = {}
        self.panics = []
        self.npaths = 0
        self.contracts = []
        self.solver = z3.Solver()
        self.solver.set('timeout', feas_timeout_ms)
        for ax in POW2_AXIOMS:
            self.solver.add(ax)
        self.feas_queries = 0
        self.unknown_feas = 0
        self.encoded = {}           # fn name -> sha
        self.used_contracts = {}    # contract name -> count
        self.frame_ctr = 0
        self.next_self_ty = None
        self.cur_mem = None
        self.max_depth = 24
        self.step_bound = 600
        self.extra_lemmas = []
        self.uf_defs = []
        self.products = []
        self.havoc = False
        self.assert_hooks = []
        self.havoced = {}
        self.cuts = 0

    def get_fn(self, m):
        f = self.cache.get(id(m))
        if f is None:
            f = Fn(m)
            self.cache[id(m)] = f
        return f

    def feasible(self, conds):
        self.feas_queries += 1
        self.solver.push()
        for c in conds:
            self.solver.add(c)
        r = self.solver.check()
        self.solver.pop()
        if r == z3.unknown:
            self.unknown_feas += 1
            return True
        return r == z3.sat

    def add_panic(self, path, msg, fn):
        self.panics.append(Panic(path.conds if isinstance(path, Path) else path, msg, fn))

    # ---- parsing helpers
    def parse_place(self, s):
        s = s.strip()
        if re.fullmatch(r'_\d+', s):
            return ('local', s)
        mm = re.fullmatch(r'(.+)\[(_\d+)\]', s)
        if mm and not s.startswith('('):
            return ('index', self.parse_place(mm.group(1)), mm.group(2))
        mm = re.fullmatch(r'(.+)\[(\d+) of (\d+)\]', s)
        if mm and not s.startswith('('):
            return ('cindex', self.parse_place(mm.group(1)), int(mm.group(2)))
        if s.startswith('(') and s.endswith(')'):
            inner = s[1:-1]
            depth = 0
            closed_at = None
            for i, c in enumerate(inner):
                if c == '(':
                    depth += 1
                elif c == ')':
                    depth -= 1
                elif depth == 0 and c == '.' and re.match(r'\.\d+:', inner[i:]):
                    base = inner[:i]
                    mm = re.match(r'\.(\d+): (.*)$', inner[i:])
                    return ('field', self.parse_place(base), int(mm.group(1)), mm.group(2))
                elif depth == 0 and inner[i:i + 4] == ' as ':
                    return ('downcast', self.parse_place(inner[:i]), inner[i + 4:].strip())
            if inner.startswith('*'):
                return ('deref', self.parse_place(inner[1:]))
        if s.startswith('*'):
            return ('deref', self.parse_place(s[1:]))
        mm = re.fullmatch(r'(\(.+\))\[(_\d+)\]', s)
        if mm:
            return ('index', self.parse_place(mm.group(1)), mm.group(2))
        mm = re.fullmatch(r'(\(.+\))\[(\d+) of (\d+)\]', s)
        if mm:
            return ('cindex', self.parse_place(mm.group(1)), int(mm.group(2)))
        raise Unsupported(f'place syntax: {s}')

    def mk_int(self, v, ty):
        w, sg = INT_TY[ty]
        if self.intmode:
            return z3.IntVal(v)
        return z3.BitVecVal(v, w)

    def const(self, s):
        s = s.strip()
        mm = re.fullmatch(r'(-?\d+)_([iu](?:8|16|32|64|128|size))', s)
        if mm:
            return self.mk_int(int(mm.group(1)), mm.group(2)), mm.group(2)
        mm = re.fullmatch(r'(?:core::num::<impl )?([iu](?:8|16|32|64|128|size))>?::(MAX|MIN)', s)
        if mm:
            w, sg = INT_TY[mm.group(1)]
            if mm.group(2) == 'MAX':
                v = (1 << (w - 1)) - 1 if sg else (1 << w) - 1
            else:
                v = -(1 << (w - 1)) if sg else 0
            return self.mk_int(v, mm.group(1)), mm.group(1)
        if s in ('true', 'false'):
            return z3.BoolVal(s == 'true'), 'bool'
        mm = re.fullmatch(r'([+-]?(?:Inf|NaN|inf|nan|[0-9.eE+-]+))_?f64', s)
        if mm:
            t = mm.group(1)
            F = z3.Float64()
            if 'inf' in t.lower():
                v = z3.fpMinusInfinity(F) if t.startswith('-') else z3.fpPlusInfinity(F)
            elif 'nan' in t.lower():
                v = z3.fpNaN(F)
            else:
                v = z3.FPVal(float(t), F)
            return v, 'f64'
        mm = re.fullmatch(r'\{transmute\(0x0+\): (?:std::option::|core::option::)?Option<(?:&|std::boxed::Box<|Box<|NonNull<).*\}', s)
        if mm:      # the null niche of an Option of a non-null pointer is None
            return Enum('None', [], 'Option'), None
        mm = re.fullmatch(r'[\w:]+\((-?\d+_[iu]\w+)\)', s)      # newtype constant e.g. InlineInt(0_i32)
        if mm:
            return self.const(mm.group(1))
        mm = re.match(r'^(.*)::(\w+)$', s)
        if mm and not s.endswith(')'):   # unit-like enum constant e.g. Option::<i32>::None
            return Enum(mm.group(2), [], last_seg(mm.group(1))), None
        mm = re.match(r'^(.*)::(\w+)\((.*)\)$', s)
        if mm:
            inner = mm.group(3).strip()
            if inner == '':
                f = []
            elif inner == '()':
                f = [Struct([])]
            else:
                c, _ = self.const(inner)
                f = [c]
            return Enum(mm.group(2), f, last_seg(mm.group(1))), None
        if s == '()':
            return Struct([]), '()'
        return Opaque(f'const {s[:60]}'), None

    # ---- state access
    def read(self, st, place):
        k = place[0]
        if k == 'local':
            v = st['mem'].get((st['frame'], place[1]))
            if v is None:
                return Opaque(f'uninit {place[1]}')
            return v
        if k == 'deref':
            r = self.read(st, place[1])
            if isinstance(r, Ref):
                return self.read_ref(st['mem'], r)
            if isinstance(r, (Opaque, Slice)):
                return r
            raise Unsupported(f'deref of non-ref {r}')
        if k == 'field':
            b = self.read(st, place[1])
            if isinstance(b, Opaque):
                return b
            if isinstance(b, SymEnum):
                return b.fields.get(place[2], Opaque('payload of symbolic enum'))
            if isinstance(b, Slice):      # Box<[T]>.0 / Unique.pointer / NonNull.pointer projections: identity
                return b
            if isinstance(b, (Struct, Enum)):
                if place[2] >= len(b.fields):
                    return Opaque('field oob')
                return b.fields[place[2]]
            if isinstance(b, tuple) and b[0] == 'ovf':   # (value, overflow_flag)
                return b[1 + place[2]]
            if place[2] == 0 and (z3.is_expr(b) or isinstance(b, Big)):
                return b                  # newtype over a scalar
            raise Unsupported(f'field of {b} place={place}')
        if k == 'downcast':
            b = self.read(st, place[1])
            if isinstance(b, SymEnum):
                return b
            if isinstance(b, Enum):
                if b.variant != place[2]:
                    return Opaque(f'downcast {b.variant} as {place[2]}')
                return b
            return b
        if k in ('index', 'cindex'):
            b = self.read(st, place[1])
            if isinstance(b, Ref):
                b = self.read_ref(st['mem'], b)
            if isinstance(b, Slice) and b.elems is not None and k == 'cindex':
                return b.elems[place[2]]
            if isinstance(b, Slice) and b.elems is not None:
                idx = self.read(st, ('local', place[2]))
                idx = z3.simplify(idx)
                if z3.is_int_value(idx) or z3.is_bv_value(idx):
                    return b.elems[idx.as_long()]
            return Opaque('slice element')
        raise Unsupported(place)

    def read_ref(self, mem, r):
        v = mem.get(r.addr)
        for p in r.path:
            if isinstance(v, Opaque) or v is None:
                return Opaque('path through opaque')
            if z3.is_expr(v) or isinstance(v, Big):
                if p == 0:
                    continue
                return Opaque('field of scalar')
            if isinstance(p, tuple):      # ('elem', i): element of a slice with known contents
                if isinstance(v, Slice) and v.elems is not None and p[1] < len(v.elems):
                    v = v.elems[p[1]]
                    continue
                return Opaque('element of opaque slice')
            if isinstance(v, Slice):
                continue
            if isinstance(v, SymEnum):
                v = v.fields.get(p, Opaque('payload of symbolic enum'))
                continue
            v = v.fields[p] if p < len(v.fields) else Opaque('oob')
        return v

    def deref(self, mem, v):
        while isinstance(v, Ref):
            v = self.read_ref(mem, v)
        return v

    def write_ref(self, st, r, val):
        if not r.path:
            st['mem'][r.addr] = val
            return
        root = st['mem'].get(r.addr)

        def upd(node, path):
            if not path:
                return val
            if node is None or isinstance(node, Opaque):
                node = Struct([])
            if isinstance(path[0], tuple):
                if not (isinstance(node, Slice) and node.elems is not None and path[0][1] < len(node.elems)):
                    raise Unsupported(f'write to element {path[0]} of {node}')
                n2 = copy.copy(node)
                n2.elems = list(node.elems)
                n2.elems[path[0][1]] = upd(n2.elems[path[0][1]], path[1:])
                return n2
            if isinstance(node, Slice):      # Box<[T]>.0 / Unique.pointer projections: identity
                return upd(node, path[1:])
            if z3.is_expr(node) or isinstance(node, Big):
                if path[0] != 0:
                    raise Unsupported('write field>0 of scalar')
                return upd(node, path[1:])
            n2 = copy.copy(node)
            n2.fields = list(node.fields)
            while len(n2.fields) <= path[0]:
                n2.fields.append(Opaque('unset'))
            n2.fields[path[0]] = upd(n2.fields[path[0]], path[1:])
            return n2
        st['mem'][r.addr] = upd(root, r.path)

    def write(self, st, place, val):
        k = place[0]
        if k == 'local':
            st['mem'][(st['frame'], place[1])] = val
            return
        if k == 'field':
            base = place[1]
            b = self.read(st, base)
            if isinstance(b, Opaque) or b is None:
                b = Struct([])
            if isinstance(b, (Struct, Enum)):
                b2 = copy.copy(b)
                b2.fields = list(b.fields)
                while len(b2.fields) <= place[2]:
                    b2.fields.append(Opaque('unset'))
                b2.fields[place[2]] = val
                self.write(st, base, b2)
                return
            if (z3.is_expr(b) or isinstance(b, Big)) and place[2] == 0:
                self.write(st, base, val)
                return
            raise Unsupported(f'write field of {b}')
        if k == 'deref':
            r = self.read(st, place[1])
            if isinstance(r, Ref):
                self.write_ref(st, r, val)
                return
            if isinstance(r, Slice):
                return
            raise Unsupported(f'write through non-ref {r}')
        if k == 'downcast':
            self.write(st, place[1], val)
            return
        if k in ('index', 'cindex'):
            r = self.make_ref(st, place)
            if isinstance(r, Ref):
                self.write_ref(st, r, val)
            return          # otherwise: indexed write into a slice whose contents stay opaque
        raise Unsupported(place)

    def operand(self, st, s, fn):
        s = s.strip()
        if s.startswith('no_retag '):
            s = s[9:]
        if s.startswith('copy ') or s.startswith('move '):
            return self.read(st, self.parse_place(s[5:]))
        if s.startswith('const '):
            mp = re.search(r'::promoted\[(\d+)\]$', s)
            if mp:
                key = f'fn {fn.name}::promoted[{mp.group(1)}]()'
                cands = [m for m in self.db.fns if m.header.startswith(key)]
                if len(cands) != 1:
                    raise Unsupported(f'promoted lookup {key}: {len(cands)}')
                outs = self.run(self.get_fn(cands[0]), [], Path(), 1, (), st['mem'])
                if len(outs) != 1:
                    raise Unsupported('promoted const with several paths')
                st['mem'].update(outs[0][2])
                return outs[0][0]
            return self.const(s[6:])[0]
        if re.fullmatch(r"[\w:<>', ]+", s):
            return Opaque('fnitem ' + s)      # a function item / tuple-variant constructor passed as a value
        raise Unsupported(f'operand {s}')

    def ty_of_operand(self, s, fn):
        s = s.strip()
        if s.startswith('no_retag '):
            s = s[9:]
        if s.startswith('copy ') or s.startswith('move '):
            pl = self.parse_place(s[5:])
            if pl[0] == 'local':
                return fn.local_ty.get(pl[1])
            if pl[0] == 'field':
                return pl[3]
            return None
        if s.startswith('const '):
            return self.const(s[6:])[1]
        return None

    def signed(self, ty):
        return INT_TY.get((ty or '').strip(), (0, False))[1]

    # ---- rvalues
    BINOPS = {'Add', 'Sub', 'Mul', 'Div', 'Rem', 'BitAnd', 'BitOr', 'BitXor', 'Shl', 'Shr', 'Eq', 'Ne', 'Lt', 'Le', 'Gt', 'Ge', 'Cmp',
              'AddWithOverflow', 'SubWithOverflow', 'MulWithOverflow', 'AddUnchecked', 'SubUnchecked', 'MulUnchecked', 'ShlUnchecked', 'ShrUnchecked'}

    def rvalue(self, st, s, fn, dest_ty):
        s = s.strip()
        if s.startswith('no_retag '):
            s = s[9:]
        mm = re.match(r'^(\w+)\((.*)\)$', s)
        if mm and mm.group(1) in self.BINOPS:
            a_s, b_s = split_top(mm.group(2))
            a, b = self.operand(st, a_s, fn), self.operand(st, b_s, fn)
            ty = self.ty_of_operand(a_s, fn) or self.ty_of_operand(b_s, fn)
            return self.binop(mm.group(1), a, b, ty, st)
        if mm and mm.group(1) in ('Not', 'Neg'):
            a = self.operand(st, mm.group(2), fn)
            if isinstance(a, Opaque):
                return a
            if mm.group(1) == 'Not':
                if z3.is_bool(a):
                    return z3.Not(a)
                if z3.is_int(a):
                    ty = self.ty_of_operand(mm.group(2), fn)
                    w, sg = INT_TY.get((ty or 'i64').strip(), (64, True))
                    return (-a - 1) if sg else ((1 << w) - 1 - a)
                return ~a
            if z3.is_fp(a):
                return z3.fpNeg(a)
            if z3.is_int(a):
                ty = self.ty_of_operand(mm.group(2), fn)
                w, sg = INT_TY.get((ty or 'i64').strip(), (64, True))
                return wrap(-a, w, sg)
            return -a
        if mm and mm.group(1) == 'discriminant':
            v = self.read(st, self.parse_place(mm.group(2)))
            return self.discriminant(v)
        if mm and mm.group(1) == 'PtrMetadata':
            v = self.operand(st, mm.group(2), fn)
            v = self.deref(st['mem'], v)
            if isinstance(v, Slice):
                return v.length
            return Opaque('ptrmeta')
        if mm and mm.group(1) == 'Len':
            v = self.read(st, self.parse_place(mm.group(2)))
            v = self.deref(st['mem'], v)
            if isinstance(v, Slice):
                return v.length
            return Opaque('len')
        mm = re.match(r'^(.*) as (.+) \((\w+(?:\(.*\))?)\)$', s)
        if mm:
            a = self.operand(st, mm.group(1), fn)
            return self.cast(a, self.ty_of_operand(mm.group(1), fn), mm.group(2).strip(), mm.group(3))
        if s.startswith('&raw '):
            body = re.sub(r'^&raw (const|mut) ', '', s)
            try:
                pl = self.parse_place(body)
                return self.make_ref(st, pl)
            except Unsupported:
                return Opaque('rawptr')
        if s.startswith('&'):
            body = s[1:]
            if body.startswith('mut '):
                body = body[4:]
            pl = self.parse_place(body)
            return self.make_ref(st, pl)
        if s.startswith('copy ') or s.startswith('move ') or s.startswith('const '):
            return self.operand(st, s, fn)
        if s.startswith('[') and s.endswith(']'):
            parts = split_top(s[1:-1])
            return Slice(self.mk_int(len(parts), 'usize'), [self.operand(st, p, fn) for p in parts], 'array')
        if s.startswith('(') and s.endswith(')'):
            parts = split_top(s[1:-1])
            return Struct([self.operand(st, p, fn) for p in parts])
        mm = re.match(r'^(.*?)::(\w+)\((.*)\)$', s)
        if mm:
            args = [self.operand(st, p, fn) for p in split_top(mm.group(3))] if mm.group(3).strip() else []
            return Enum(mm.group(2), args, last_seg(mm.group(1)))
        mm = re.match(r'^\{closure@[^}]*\} \{(.*)\}$', s)
        if mm:      # closure environment: captured places in order
            fields = []
            for p in split_top(mm.group(1)):
                if ':' in p:
                    fields.append(self.operand(st, p.split(':', 1)[1], fn))
            return Struct(fields, 'closure')
        if re.match(r'^\{closure@[^}]*\}$', s):
            return Struct([], 'closure')
        mm = re.match(r'^([\w:<>\', ]+?) \{(.*)\}$', s)
        if mm:
            fields = []
            for p in split_top(mm.group(2)):
                if ':' in p:
                    fields.append(self.operand(st, p.split(':', 1)[1], fn))
            segs = strip_generics(mm.group(1)).split('::')
            if len(segs) >= 2 and segs[-2].strip() in ENUMS and segs[-1].strip() in ENUMS[segs[-2].strip()]:
                return Enum(segs[-1].strip(), fields, segs[-2].strip())
            return Struct(fields, last_seg(mm.group(1)))
        mm = re.match(r'^([\w:]+)\((.*)\)$', s)
        if mm:   # tuple-struct ctor e.g. InlineInt(copy _x)
            args = [self.operand(st, p, fn) for p in split_top(mm.group(2))]
            if len(args) == 1 and (z3.is_expr(args[0]) or isinstance(args[0], Big)):
                return args[0]
            return Struct(args, last_seg(mm.group(1)))
        mm = re.fullmatch(r'([\w:<>\', ()&\[\];]+)::([A-Z]\w*)', s)
        if mm and mm.group(1).count('(') == mm.group(1).count(')') and mm.group(1).count('<') == mm.group(1).count('>'):      # unit enum variant
            return Enum(mm.group(2), [], last_seg(mm.group(1)))
        return Opaque(f'rvalue {s[:60]}')

    def discriminant(self, v):
        if isinstance(v, SymEnum):
            return v.tag
        if isinstance(v, Enum):
            if v.variant in ORDERING and (v.ty in (None, 'Ordering')):
                return z3.BitVecVal(ORDERING[v.variant], 8)
            if v.ty in ENUMS and v.variant in ENUMS[v.ty]:
                return ('discr', ENUMS[v.ty].index(v.variant))
            for ty, vs in ENUMS.items():
                if v.variant in vs and (v.ty is None or v.ty not in ENUMS):
                    return ('discr', vs.index(v.variant))
        if isinstance(v, tuple) and v[0] == 'ordering':
            return v[1]
        if isinstance(v, Opaque):
            return v
        raise Unsupported(f'discriminant of {v}')

    def make_ref(self, st, pl):
        path = []
        cur = pl
        while True:
            if cur[0] == 'local':
                return Ref((st['frame'], cur[1]), tuple(reversed(path)))
            if cur[0] == 'field':
                path.append(cur[2])
                cur = cur[1]
                continue
            if cur[0] == 'downcast':
                cur = cur[1]
                continue
            if cur[0] == 'deref':
                r = self.read(st, cur[1])
                if isinstance(r, Ref):
                    return Ref(r.addr, r.path + tuple(reversed(path)))
                if isinstance(r, Slice):
                    return r
                return Opaque('ref through non-ref')
            if cur[0] in ('index', 'cindex'):
                if cur[0] == 'cindex':
                    i = cur[2]
                else:
                    idx = self.read(st, ('local', cur[2]))
                    idx = z3.simplify(idx) if z3.is_expr(idx) else idx
                    i = idx.as_long() if z3.is_expr(idx) and (z3.is_int_value(idx) or z3.is_bv_value(idx)) else None
                base = cur[1]
                holder = self.read(st, base[1]) if base[0] == 'deref' else None
                if i is None or not isinstance(holder, Ref):
                    return Opaque('ref to slice element')
                tgt = self.read_ref(st['mem'], holder)
                if not (isinstance(tgt, Slice) and tgt.elems is not None and i < len(tgt.elems)):
                    return Opaque('ref to slice element')
                return Ref(holder.addr, holder.path + (('elem', i),) + tuple(reversed(path)))
            raise Unsupported(f'make_ref {cur}')

    def ordering_of(self, lt, eq):
        return ('ordering', z3.If(lt, z3.BitVecVal(-1, 8), z3.If(eq, z3.BitVecVal(0, 8), z3.BitVecVal(1, 8))))

    def binop(self, op, a, b, ty, st):
        if isinstance(a, Opaque) or isinstance(b, Opaque):
            return Opaque('binop on opaque')
        if isinstance(a, tuple) and a[0] == 'discr' and isinstance(b, tuple) and b[0] == 'discr':
            if op == 'Eq':
                return z3.BoolVal(a[1] == b[1])
            if op == 'Ne':
                return z3.BoolVal(a[1] != b[1])
            raise Unsupported(f'discr binop {op}')
        if isinstance(a, tuple) and a[0] == 'discr':
            a = self.mk_int(a[1], 'isize')
        if isinstance(b, tuple) and b[0] == 'discr':
            b = self.mk_int(b[1], 'isize')
        if isinstance(a, tuple) and a[0] == 'ordering':
            a = a[1]
        if isinstance(b, tuple) and b[0] == 'ordering':
            b = b[1]
        sg = self.signed(ty)
        if z3.is_fp(a) or z3.is_fp(b):
            F = {'Eq': z3.fpEQ, 'Ne': lambda x, y: z3.Not(z3.fpEQ(x, y)), 'Lt': z3.fpLT, 'Le': z3.fpLEQ, 'Gt': z3.fpGT, 'Ge': z3.fpGEQ,
                 'Add': lambda x, y: z3.fpAdd(z3.RNE(), x, y), 'Sub': lambda x, y: z3.fpSub(z3.RNE(), x, y),
                 'Mul': lambda x, y: z3.fpMul(z3.RNE(), x, y), 'Div': lambda x, y: z3.fpDiv(z3.RNE(), x, y)}
            if op in F:
                return F[op](a, b)
            raise Unsupported(f'float op {op}')
        if z3.is_bool(a):
            if op == 'BitOr':
                return z3.Or(a, b)
            if op == 'BitAnd':
                return z3.And(a, b)
            if op == 'BitXor':
                return z3.Xor(a, b)
            if op == 'Eq':
                return a == b
            if op == 'Ne':
                return a != b
            raise Unsupported(f'bool op {op}')
        if z3.is_int(a) and z3.is_int(b):
            w, sg = INT_TY.get((ty or '').strip(), (64, True))
            if op.startswith('Mul') and not z3.is_int_value(z3.simplify(a)) and not z3.is_int_value(z3.simplify(b)):
                self.products.append((a, b))     # symbolic x symbolic: lemma instantiation points
            if op in ('Add', 'Sub', 'Mul'):
                return wrap({'Add': a + b, 'Sub': a - b, 'Mul': a * b}[op], w, sg)
            if op in ('AddUnchecked', 'SubUnchecked', 'MulUnchecked'):
                return {'Add': a + b, 'Sub': a - b, 'Mul': a * b}[op[:3]]
            if op.endswith('WithOverflow'):
                full = {'Add': a + b, 'Sub': a - b, 'Mul': a * b}[op[:3]]
                return ('ovf', wrap(full, w, sg), z3.Not(in_range(full, w, sg)))
            if op == 'Div':
                return int_tdiv(a, b)
            if op == 'Rem':
                return a - b * int_tdiv(a, b)
            if op in ('Shl', 'ShlUnchecked'):
                return wrap(a * POW2(b), w, sg)
            if op in ('Shr', 'ShrUnchecked'):
                return floor_shr(a, POW2(b))
            if op in ('BitAnd', 'BitOr', 'BitXor'):
                return int_bitop(op, a, b, w, sg)
            if op == 'Eq':
                return a == b
            if op == 'Ne':
                return a != b
            if op == 'Lt':
                return a < b
            if op == 'Le':
                return a <= b
            if op == 'Gt':
                return a > b
            if op == 'Ge':
                return a >= b
            if op == 'Cmp':
                return self.ordering_of(a < b, a == b)
            raise Unsupported(f'int-mode binop {op}')
        if not z3.is_bv(a) or not z3.is_bv(b):
            raise Unsupported(f'binop {op} on mixed sorts {a} {b}')
        w = a.size()
        if b.size() != w:   # shifts may have different rhs width
            b = z3.ZeroExt(w - b.size(), b) if b.size() < w else z3.Extract(w - 1, 0, b)
        if op in ('Add', 'AddUnchecked'):
            return a + b
        if op in ('Sub', 'SubUnchecked'):
            return a - b
        if op in ('Mul', 'MulUnchecked'):
            return a * b
        if op == 'BitAnd':
            return a & b
        if op == 'BitOr':
            return a | b
        if op == 'BitXor':
            return a ^ b
        if op in ('Shl', 'ShlUnchecked'):
            return a << b
        if op in ('Shr', 'ShrUnchecked'):
            return (a >> b) if sg else z3.LShR(a, b)
        if op == 'Div':
            return (a / b) if sg else z3.UDiv(a, b)
        if op == 'Rem':
            return z3.SRem(a, b) if sg else z3.URem(a, b)
        if op == 'Eq':
            return a == b
        if op == 'Ne':
            return a != b
        if op == 'Lt':
            return (a < b) if sg else z3.ULT(a, b)
        if op == 'Le':
            return (a <= b) if sg else z3.ULE(a, b)
        if op == 'Gt':
            return (a > b) if sg else z3.UGT(a, b)
        if op == 'Ge':
            return (a >= b) if sg else z3.UGE(a, b)
        if op == 'Cmp':
            lt = (a < b) if sg else z3.ULT(a, b)
            return self.ordering_of(lt, a == b)
        if op.endswith('WithOverflow'):
            ext = (lambda x: z3.SignExt(w, x)) if sg else (lambda x: z3.ZeroExt(w, x))
            wa, wb = ext(a), ext(b)
            full = {'Add': wa + wb, 'Sub': wa - wb, 'Mul': wa * wb}[op[:3]]
            res = z3.Extract(w - 1, 0, full)
            return ('ovf', res, ext(res) != full)
        raise Unsupported(f'binop {op}')

    def cast(self, a, from_ty, to_ty, kind):
        if isinstance(a, Opaque):
            return a
        if isinstance(a, tuple) and a[0] == 'ordering':
            a = a[1]
            from_ty = 'i8'
        if isinstance(a, tuple) and a[0] == 'discr':
            return self.mk_int(a[1], to_ty) if to_ty in INT_TY else Opaque('discr cast')
        if kind.startswith('PointerCoercion') or kind in ('PtrToPtr', 'FnPtrToPtr'):
            return a
        if kind == 'IntToInt' and z3.is_int(a):
            w2, s2 = INT_TY[to_ty]
            f = INT_TY.get((from_ty or '').strip())
            if f:
                w1, s1 = f
                # widening cast: every value of the source type is a value of the target type
                # (all terms of machine type T are kept inside T's range by construction)
                if (s1 == s2 and w1 <= w2) or (not s1 and s2 and w1 < w2):
                    return a
            return wrap(a, w2, s2)
        if kind == 'IntToInt' and z3.is_bool(a):
            return z3.If(a, self.mk_int(1, to_ty), self.mk_int(0, to_ty))
        if kind == 'IntToInt' and z3.is_bv(a) and a.size() == 8 and self.intmode:   # ordering discriminant as i8 -> int
            return z3.If(a == z3.BitVecVal(-1, 8), z3.IntVal(-1), z3.If(a == z3.BitVecVal(0, 8), z3.IntVal(0), z3.IntVal(1)))
        if kind == 'IntToInt':
            w2, s2 = INT_TY[to_ty]
            w1 = a.size()
            s1 = self.signed(from_ty)
            if w2 == w1:
                return a
            if w2 < w1:
                return z3.Extract(w2 - 1, 0, a)
            return z3.SignExt(w2 - w1, a) if s1 else z3.ZeroExt(w2 - w1, a)
        if kind == 'IntToFloat':
            if self.intmode:
                raise Unsupported('IntToFloat in integer mode')
            s1 = self.signed(from_ty)
            return z3.fpSignedToFP(z3.RNE(), a, z3.Float64()) if s1 else z3.fpUnsignedToFP(z3.RNE(), a, z3.Float64())
        if kind == 'FloatToInt':
            if self.intmode:
                raise Unsupported('FloatToInt in integer mode')
            w2, s2 = INT_TY[to_ty]
            F = z3.Float64()
            if s2:
                mx, mn = (1 << (w2 - 1)) - 1, -(1 << (w2 - 1))
                conv = z3.fpToSBV(z3.RTZ(), a, z3.BitVecSort(w2))
                return z3.If(z3.fpIsNaN(a), z3.BitVecVal(0, w2),
                             z3.If(z3.fpGEQ(a, z3.FPVal(float(mx + 1), F)), z3.BitVecVal(mx, w2),
                                   z3.If(z3.fpLEQ(a, z3.FPVal(float(mn), F)), z3.BitVecVal(mn, w2), conv)))
            mx = (1 << w2) - 1
            conv = z3.fpToUBV(z3.RTZ(), a, z3.BitVecSort(w2))
            return z3.If(z3.fpIsNaN(a), z3.BitVecVal(0, w2),
                         z3.If(z3.fpGEQ(a, z3.FPVal(float(mx + 1), F)), z3.BitVecVal(mx, w2),
                               z3.If(z3.fpLEQ(a, z3.FPVal(0.0, F)), z3.BitVecVal(0, w2), conv)))
        if kind == 'Transmute':
            if z3.is_expr(a) and z3.is_fp(a) and to_ty == 'u64':
                return self.fp_to_bits(a)
            if z3.is_expr(a) and z3.is_bv(a) and to_ty == 'f64':
                return z3.fpBVToFP(a, z3.Float64())
            if isinstance(a, (Slice, Ref, Struct, Enum, Big)) or z3.is_expr(a):
                return a      # pointer-shape transmutes (NonNull<[T]> -> *const [T], newtypes) are identities
            return Opaque('transmute')
        return Opaque(f'cast {kind}')

    def fp_to_bits(self, a):
        """f64 -> u64 bit pattern, portable encoding: fresh b with to_fp(b) == a (NaN: any NaN payload)"""
        self._fresh = getattr(self, '_fresh', 0) + 1
        b = z3.BitVec(f'bits!{self._fresh}', 64)
        self.extra_lemmas.append(z3.fpBVToFP(b, z3.Float64()) == a)
        return b

    # ---- calls
    FOREIGN_RECV = re.compile(r'^(std|core|alloc|num_bigint|num_traits|anyhow|hashbrown)::')

    def resolve(self, callee, argvals, st=None):
        """find a MIR body for a call"""
        c = callee.strip()
        c_nogen = re.sub(r'::<[^<>]*(<[^<>]*(<[^<>]*>[^<>]*)*>[^<>]*)*>', '', c)
        meth = c_nogen.split('::')[-1]
        cands = self.db.by_method.get(meth, [])
        if not cands:
            return None
        mf = re.match(r"^<&?(?:'\w+ )?(?:mut )?([\w:]+)", c_nogen)
        if mf and (mf.group(1) in INT_TY or mf.group(1) in ('bool', 'f64', 'f32', 'str', 'char') or self.FOREIGN_RECV.match(mf.group(1))):
            # foreign receiver type: contract-only, never resolved by method name -- unless the trait is
            # instantiated with a repository type (`<i32 as Mul<StarlarkIntRef>>::mul`), in which case the
            # impl must live in the repository and is matched on both argument types exactly
            mt = re.match(r'^<(.+?) as ([\w:]+)<(.+)>>::\w+$', strip_keep(c))
            if not mt:
                return None
            targ = last_seg(mt.group(3))
            if targ in INT_TY or targ in ('bool', 'f64', 'f32', 'str', 'char', 'BigInt', 'Self') or len(targ) <= 2:
                return None
            hits = []
            for m in cands:
                f = self.get_fn(m)
                if len(f.args) == len(argvals) == 2 and last_seg(f.args[0][1]) == last_seg(mt.group(1)) and last_seg(f.args[1][1]) == targ:
                    hits.append(m)
            if len(hits) == 1:
                return hits[0]
            return None
        if self.FOREIGN_RECV.match(c_nogen) and '<impl' not in c_nogen:
            return None
        tyname = None
        mm = re.match(r'^<(.+?) as (.+)>::\w+$', c_nogen)
        if mm:
            tyname = last_seg(mm.group(1))
        else:
            parts = c_nogen.split('::')
            if len(parts) >= 2:
                tyname = parts[-2]
        best = []
        trait_arg = None
        trait_name = None
        m2 = re.match(r'^<(.+?) as ([\w:]+)<(.+)>>::\w+$', strip_keep(c))
        if m2:
            trait_arg = last_seg(m2.group(3))
        m3 = re.match(r'^<(.+?) as ([\w:]+)', c_nogen)
        if m3:
            trait_name = m3.group(2).split('::')[-1]
        for m in cands:
            f = self.get_fn(m)
            if len(f.args) != len(argvals):
                continue
            first = last_seg(f.args[0][1]) if f.args else None
            score = 0
            if not c_nogen.startswith('<'):
                fname = strip_generics(f.name)
                if fname == c_nogen:
                    score += 6
                elif fname.endswith('::' + c_nogen) or c_nogen.endswith('::' + fname):
                    score += 4
            if trait_arg and len(f.args) == 1 and first == trait_arg:
                score += 3
            if (not trait_arg) and mm and len(f.args) >= 2 and last_seg(f.args[1][1]) == tyname and first == tyname:
                score += 3
            if trait_arg and len(f.args) >= 2:
                if first == tyname:
                    score += 3
                if last_seg(f.args[1][1]) == trait_arg:
                    score += 3
            if tyname and first == tyname:
                score += 2
            if tyname and tyname in m.header.split('(')[0]:
                score += 1
            if tyname and last_seg(f.ret.replace('Self', tyname)) == tyname:
                score += 1
            best.append((score, m))
        if not best:
            return None
        best.sort(key=lambda x: -x[0])
        if len(best) > 1 and best[0][0] == best[1][0]:
            if best[0][1].header == best[1][1].header:
                return best[0][1]
            if len(cands) == 1:
                return best[0][1]
            raise Unsupported(f'ambiguous callee {callee}: {[b[1].header[:100] for b in best[:3]]}')
        return best[0][1]

    def call(self, st, callee, argvals, path, depth):
        """returns list of ('ret', value, path, mem)"""
        for pat, hook in self.assert_hooks:
            if pat.search(callee):
                hook(self, st, argvals, path, callee)       # may record panic edges (debug_assert! bodies are not in the MIR)
        if re.match(r'^<\{closure@[^}]*\} as Fn(Mut|Once)?<\(.*\)>>::call(_mut|_once)?$', callee):
            tup = argvals[1]
            targs = list(tup.fields) if isinstance(tup, Struct) else [tup]
            f = self.find_closure(callee)
            return [('ret', v, p, m) for v, p, m in self.run(f, [argvals[0]] + targs, path, depth + 1, (), st['mem'])]
        for name, pat, fnc in self.contracts:
            if pat.search(callee):
                self.cur_mem = st['mem']
                self.used_contracts[name] = self.used_contracts.get(name, 0) + 1
                out = []
                for r in fnc(self, st, argvals, path, callee):
                    out.append(r if len(r) == 4 else (r[0], r[1], r[2], st['mem']))
                return out
        m = self.resolve(callee, argvals, st)
        if m is None:
            if self.havoc:
                # bug-hunting mode for arithmetic prologues: an unknown callee returns an opaque value; a path is cut
                # as soon as an opaque value reaches a branch or an assert (recorded in self.cuts)
                self.havoced[callee[:120]] = self.havoced.get(callee[:120], 0) + 1
                return [('ret', Opaque('havoc ' + callee[:60]), path, st['mem'])]
            raise Unsupported(f'no body/contract for {callee}')
        tyargs = []
        mt = re.search(r'::<([^()]*)>$', callee.strip())
        if mt:
            tyargs = split_top(mt.group(1))
        return [('ret', v, p, mem2) for (v, p, mem2) in self.run(self.get_fn(m), argvals, path, depth + 1, tyargs, st['mem'])]

    def run_closure(self, callee, args, path, mem, depth=1):
        f = self.find_closure(callee)
        return [('ret', v, p, m) for v, p, m in self.run(f, args, path, depth, (), mem)]

    def find_closure(self, callee):
        mm = re.search(r'\{closure@([^}]*?): \d+:\d+\}', callee)
        if not mm:
            raise Unsupported('no closure in ' + callee)
        key = '{closure@' + mm.group(1)
        for m in self.db.fns:
            if '{closure#' in m.header and key in m.header:
                return self.get_fn(m)
        raise Unsupported('closure body not found ' + key)

    # ---- run a function
    def run(self, fn, argvals, path, depth=0, tyargs=(), mem=None):
        """returns list of (return value, path, mem)"""
        if depth > self.max_depth:
            raise Unsupported('call depth')
        self.encoded[fn.name] = fn.m.sha()
        self.frame_ctr += 1
        st = {'mem': dict(mem or {}), 'frame': self.frame_ctr, 'tyenv': {}}
        gen = []
        for (n, t) in fn.args:
            t0 = re.sub(r"^&('\w+ )?(mut )?", '', t.strip())
            if re.fullmatch(r'[A-Z]\w{0,2}', t0) and t0 not in gen:
                gen.append(t0)
        for g, a in zip(gen, tyargs):
            st['tyenv'][g] = a.strip()
        st['self_ty'] = self.next_self_ty
        self.next_self_ty = None
        if len(argvals) != len(fn.args):
            raise Unsupported(f'arity mismatch calling {fn.name}: {len(argvals)} vs {len(fn.args)}')
        for (n, t), v in zip(fn.args, argvals):
            st['mem'][(st['frame'], n)] = v
        results = []
        work = [('bb0', st, path, 0)]
        while work:
            bb, st, path, steps = work.pop()
            if steps > self.step_bound:
                raise Unsupported(f'step bound exceeded in {fn.name} (loop?)')
            stmts = fn.blocks[bb]
            term = stmts[-1]
            try:
                for s_ in stmts[:-1]:
                    self.stmt(st, s_, fn)
                items = self.terminator(st, term, fn, path, depth)
            except Unsupported:
                if self.havoc:
                    self.cuts += 1
                    continue
                raise
            for item in items:
                if item[0] == 'goto':
                    work.append((item[1], item[2], item[3], steps + 1))
                elif item[0] == 'return':
                    results.append((item[1], item[2], item[3]))
        return results

    def stmt(self, st, s, fn):
        if s.startswith('assume('):
            return
        mm = re.match(r'^(.+?) = (.+);$', s)
        if not mm:
            if s.startswith(('StorageLive', 'StorageDead', 'nop', 'FakeRead', 'Retag', 'PlaceMention', 'ConstEvalCounter', 'Coverage', 'AscribeUserType', 'BackwardIncompatibleDropHint')):
                return
            raise Unsupported(f'stmt {s}')
        dst = self.parse_place(mm.group(1))
        dty = fn.local_ty.get(dst[1]) if dst[0] == 'local' else None
        val = self.rvalue(st, mm.group(2), fn, dty)
        self.write(st, dst, val)

    def fork(self, st):
        return {'mem': dict(st['mem']), 'frame': st['frame'], 'tyenv': st.get('tyenv', {}), 'self_ty': st.get('self_ty')}

    def subst_ty(self, st, callee):
        env = st.get('tyenv') or {}
        for g, a in env.items():
            callee = re.sub(rf'(?<![\w:]){g}(?![\w:])', a, callee)
        return callee

    def terminator(self, st, t, fn, path, depth):
        t = t.rstrip(';')
        if t == 'return':
            self.npaths += 1
            return [('return', st['mem'].get((st['frame'], '_0'), Struct([])), path, st['mem'])]
        if t == 'unreachable':
            if self.feasible(path.conds):
                self.add_panic(path, 'unreachable', fn.name)
            return []
        if t.startswith('resume') or t.startswith('terminate'):
            return []
        mm = re.match(r'^goto -> (bb\d+)$', t)
        if mm:
            return [('goto', mm.group(1), st, path)]
        mm = re.match(r'^switchInt\((.+)\) -> \[(.+)\]$', t)
        if mm:
            v = self.operand(st, mm.group(1), fn)
            if isinstance(v, tuple) and v[0] == 'ordering':
                v = v[1]
            if isinstance(v, Opaque):
                if self.havoc:
                    self.cuts += 1
                    return []
                raise Unsupported(f'switch on {v} in {fn.name[-70:]}')
            out = []
            others = []
            tgts = split_top(mm.group(2))
            if isinstance(v, tuple) and v[0] == 'discr':
                chosen = None
                for tgt in tgts:
                    k, bb = tgt.split(':')
                    k = k.strip()
                    bb = bb.strip()
                    if k == 'otherwise':
                        if chosen is None:
                            chosen = bb
                    elif int(k) == v[1]:
                        chosen = bb
                        break
                return [('goto', chosen, st, path)] if chosen else []
            for tgt in tgts:
                k, bb = tgt.split(':')
                k = k.strip()
                bb = bb.strip()
                if k == 'otherwise':
                    cond = z3.And([c for c in others]) if others else z3.BoolVal(True)
                else:
                    if z3.is_bool(v):
                        c = (v if int(k) != 0 else z3.Not(v))
                        others.append(z3.Not(c))
                        cond = c
                    elif z3.is_int(v):
                        kv = z3.IntVal(int(k))
                        cond = (v == kv)
                        others.append(v != kv)
                    else:
                        kv = z3.BitVecVal(int(k), v.size())
                        cond = (v == kv)
                        others.append(v != kv)
                cond = z3.simplify(cond)
                if z3.is_false(cond):
                    continue
                if z3.is_true(cond):
                    p2 = path
                else:
                    p2 = path.add(cond)
                    if not self.feasible(p2.conds):
                        continue
                out.append(('goto', bb, self.fork(st), p2))
            return out
        mm = re.match(r'^assert\((!?)(.+?), "(.*?)"(?:, .*)?\) -> \[success: (bb\d+), unwind.*\]$', t)
        if mm:
            c = self.operand(st, mm.group(2), fn)
            if isinstance(c, Opaque):
                if self.havoc:
                    self.cuts += 1
                    return []
                raise Unsupported(f'assert on opaque in {fn.name}')
            ok = z3.Not(c) if mm.group(1) == '!' else c
            bad = path.add(z3.Not(ok))
            if self.feasible(bad.conds):
                self.add_panic(bad, mm.group(3)[:60], fn.name)
            good = path.add(ok)
            if not self.feasible(good.conds):
                return []
            return [('goto', mm.group(4), st, good)]
        mm = re.match(r'^drop\((.+)\) -> \[return: (bb\d+).*\]$', t)
        if mm:
            return [('goto', mm.group(2), st, path)]
        mm = re.match(r'^(.+?) = (.+) -> \[return: (bb\d+), unwind.*\]$', t) or re.match(r'^(.+?) = (.+) -> (unwind .*)$', t)
        if mm:
            dst = self.parse_place(mm.group(1))
            callexpr = mm.group(2)
            if not callexpr.endswith(')'):
                raise Unsupported(f'call syntax {callexpr}')
            depthp = 0
            i = len(callexpr) - 1
            for i in range(len(callexpr) - 1, -1, -1):
                if callexpr[i] == ')':
                    depthp += 1
                elif callexpr[i] == '(':
                    depthp -= 1
                    if depthp == 0:
                        break
            callee, args_s = callexpr[:i], callexpr[i + 1:-1]
            callee = self.subst_ty(st, callee)
            if callee.startswith(('copy ', 'move ')):
                raise Unsupported(f'indirect call {callee}')
            argvals = [self.operand(st, a, fn) for a in split_top(args_s)] if args_s.strip() else []
            nxt = mm.group(3) if mm.group(3).startswith('bb') else None
            out = []
            for r in self.call(st, callee, argvals, path, depth):
                if r[0] == 'ret':
                    if nxt is None:
                        continue
                    st2 = self.fork(st)
                    st2['mem'] = dict(r[3])
                    self.write(st2, dst, r[1])
                    out.append(('goto', nxt, st2, r[2]))
            return out
        raise Unsupported(f'terminator {t[:120]}')


def strip_keep(c):
    """strip only the trailing turbofish of a callee"""
    return re.sub(r'::<[^()]*>$', '', c)
