"""MIR front end: emit the MIR of /repo crates with the pre-installed nightly and index it.

The text is regenerated from /repo's working tree on every run (cargo's fingerprint
re-emits the .mir exactly when a source changed)."""
import glob
import hashlib
import os
import re
import subprocess
import time

REPO = os.environ.get('VERIF_REPO', '/repo')
WORK = os.environ.get('VERIF_WORK', '/verif/.work')
def mir_target(crate):
    # one target dir per crate: re-emitting one crate must not dirty the others' fingerprints
    return os.path.join(WORK, f'mir-target-{crate}')

RUSTC_FLAGS = ['--emit=mir', '-Zmir-opt-level=2', '-Zinline-mir=no',
               '-C', 'debug-assertions=off', '-C', 'overflow-checks=on']


def emit(crate, log=None):
    """(re-)emit MIR for `crate`; returns (path of the .mir file, seconds)."""
    t0 = time.time()
    env = dict(os.environ, CARGO_NET_OFFLINE='true')
    env.pop('RUSTFLAGS', None)
    cmd = ['cargo', '+nightly', 'rustc', '--offline', '-p', crate, '--lib', '--target-dir', mir_target(crate), '--'] + RUSTC_FLAGS
    r = subprocess.run(cmd, cwd=REPO, env=env, stdout=subprocess.PIPE, stderr=subprocess.STDOUT, text=True)
    if log:
        with open(log, 'a') as f:
            f.write('$ ' + ' '.join(cmd) + '\n' + r.stdout + '\n')
    if r.returncode != 0:
        raise RuntimeError(f'MIR emission failed for {crate}:\n{r.stdout[-3000:]}')
    files = glob.glob(os.path.join(mir_target(crate), 'debug', 'deps', f'{crate}-*.mir'))
    if not files:
        raise RuntimeError(f'no .mir produced for {crate}')
    files.sort(key=os.path.getmtime)
    return files[-1], time.time() - t0


class MirFn:
    __slots__ = ('header', 'lines', 'name', 'crate', '_sha')

    def __init__(self, header, lines, crate):
        self.header = header
        self.lines = lines
        self.crate = crate
        self._sha = None
        ph = parse_header(header)
        self.name = ph[0] if ph else header

    def sha(self):
        if self._sha is None:
            h = hashlib.sha256()
            h.update(self.header.encode())
            for ln in self.lines:
                h.update(ln.encode())
            self._sha = h.hexdigest()[:16]
        return self._sha


FN_RE = re.compile(r'^fn (.+)\((.*)\) -> (.+) \{$')
FN_RE_UNIT = re.compile(r'^fn (.+)\((.*)\) \{$')


def parse_header(h):
    """'fn NAME(ARGS) -> RET {' -> (name, args, ret); NAME never contains '(' but ARGS / RET may"""
    if not h.startswith('fn '):
        return None
    i = h.find('(')
    if i < 0:
        return None
    depth = 0
    j = i
    while j < len(h):
        if h[j] == '(':
            depth += 1
        elif h[j] == ')':
            depth -= 1
            if depth == 0:
                break
        j += 1
    name, args = h[3:i], h[i + 1:j]
    rest = h[j + 1:].strip()
    if rest.startswith('->'):
        ret = rest[2:].rstrip('{').strip()
    else:
        ret = '()'
    return name, args, ret


def load_mir(path, crate):
    fns = []
    cur = None
    seen = set()
    with open(path) as f:
        for line in f:
            line = line.rstrip('\n')
            if line.startswith('fn '):
                cur = MirFn(line, [], crate)
                fns.append(cur)
            elif line.startswith('const ') and line.endswith('= {') and '::promoted[' in line:
                mm = re.match(r'^const (.+): (.+) = \{$', line)
                cur = MirFn(f'fn {mm.group(1)}() -> {mm.group(2)} {{', [], crate)
                fns.append(cur)
            elif line.startswith(('static ', 'const ')) and line.endswith('= {'):
                mm = re.match(r'^(?:static|const) (?:mut )?(.+?): (.+) = \{$', line)
                if mm:
                    cur = MirFn(f'fn {mm.group(1)}() -> {mm.group(2)} {{', [], crate)
                    fns.append(cur)
                else:
                    cur = None
            elif cur is not None:
                if line == '}':
                    cur = None
                else:
                    cur.lines.append(line)
    # `const fn` bodies are emitted twice (runtime + const-eval MIR) and macro-generated functions
    # (`__starlark_invoke_impl`) share one name: identical (header, body) pairs are dropped, same-header functions
    # with different bodies are all kept (lookups that need a unique answer take the first of a same-header group)
    out = []
    for m in fns:
        key = (m.header, m.sha())
        if key in seen:
            continue
        seen.add(key)
        out.append(m)
    return out


class MirDB:
    """All functions of the emitted crates, with lookup by method name and by (file, item)."""

    def __init__(self):
        self.fns = []
        self.by_method = {}
        self.by_header_prefix = {}
        self.emit_s = {}
        self.files = {}

    def add_crate(self, crate, log=None):
        path, secs = emit(crate, log)
        self.emit_s[crate] = round(secs, 1)
        self.files[crate] = path
        fns = load_mir(path, crate)
        for m in fns:
            self.fns.append(m)
            meth = re.sub(r'::<[^<>]*(<[^<>]*>[^<>]*)*>$', '', m.name).split('::')[-1]
            self.by_method.setdefault(meth, []).append(m)
        return len(fns)

    def find(self, pattern, args=None, unique=True):
        """locate by regex on the header (file name + item name; never a line number)"""
        rx = re.compile(pattern)
        ms = [f for f in self.fns if rx.search(f.header)]
        if args is not None:
            ax = re.compile(args)
            ms = [f for f in ms if ax.search(f.header)]
        if unique:
            if len({m.header for m in ms}) != 1:
                raise LookupError(f'find({pattern!r}, {args!r}) matched {len(ms)}: {[m.header[:140] for m in ms[:6]]}')
            return ms[0]
        return ms

    def find_in_file(self, file_suffix, item, args=None, unique=True):
        """`item` defined in an impl block (or as a free fn) of the source file ending in file_suffix"""
        f = re.escape(file_suffix)
        it = re.escape(item)
        pat = rf'^fn (?:[\w:]*<impl at [^>]*{f}:\d+:\d+: \d+:\d+>::{it}|[\w:]*{it})(?:::<[^()]*>)?\('
        ms = [m for m in self.fns if re.search(pat, m.header)]
        # free functions: check they live in the file through their span comments if ambiguous
        impl_ms = [m for m in ms if '<impl at' in m.header]
        if impl_ms:
            ms = impl_ms
        if args is not None:
            ax = re.compile(args)
            ms = [m for m in ms if ax.search(m.header)]
        if unique:
            if len({m.header for m in ms}) != 1:
                raise LookupError(f'find_in_file({file_suffix!r}, {item!r}, {args!r}) matched {len(ms)}: {[m.header[:160] for m in ms[:6]]}')
            return ms[0]
        return ms
