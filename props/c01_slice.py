"""C01: element selection of `apply_slice` (values/index.rs) on slices of bounded length.

The input is a slice of concrete length L (0..N) whose elements are their own source positions; start / stop /
stride are symbolic (every i32, None or absent).  The std calls apply_slice is made of (`[T]::index(Range)`,
`to_vec`, `reverse`, `into_iter().enumerate().filter_map(closure).collect()`) are contracts over sequences of
positions; the repository's closure is executed once per position."""
import itertools
import time
import z3

from .common import (Obligation, Path, Enum, Struct, Ref, Opaque, Err, Slice, Unsupported, ret, fork2, SOME, NONE, OK, ERR, d, model_int, I32_MIN, I32_MAX)

I32 = lambda x: z3.And(x >= I32_MIN, x <= I32_MAX)


def concrete(t):
    t = z3.simplify(t)
    return t.as_long() if z3.is_int_value(t) else None


def c_index_range(ex, st, args, path, callee):
    """<[T] as Index<Range<usize>>>::index: panics if start > end or end > len; forks over the concrete bounds"""
    sl = d(ex, args[0])
    rng = args[1]
    s, e = rng.fields[0], rng.fields[1]
    L = concrete(sl.length)
    if L is None or sl.elems is None:
        raise Unsupported('slice indexing on a symbolic-length slice')
    bad = path.add(z3.Or(s > e, e > L, s < 0))
    if ex.feasible(bad.conds):
        ex.add_panic(bad, 'slice index out of range (start > end or end > len)', callee)
    out = []
    for a in range(L + 1):
        for b in range(a, L + 1):
            p = path.add(z3.And(s == a, e == b))
            if ex.feasible(p.conds):
                out.append(('ret', Slice(z3.IntVal(b - a), list(sl.elems[a:b]), 'sub'), p))
    return out


def c_to_vec(ex, st, args, path, callee):
    sl = d(ex, args[0])
    return ret(Slice(sl.length, list(sl.elems), 'vec'), path)


def c_vec_new(ex, st, args, path, callee):
    return ret(Slice(z3.IntVal(0), [], 'vec'), path)


def c_deref_mut(ex, st, args, path, callee):
    return ret(args[0], path)


def c_reverse(ex, st, args, path, callee):
    r = args[0]
    if not isinstance(r, Ref):
        raise Unsupported('reverse of non-ref')
    sl = ex.read_ref(st['mem'], r)
    mem = dict(st['mem'])
    st2 = dict(st)
    st2['mem'] = mem
    ex.write_ref(st2, r, Slice(sl.length, list(reversed(sl.elems)), 'vec'))
    return [('ret', Struct([]), path, mem)]


def c_into_iter(ex, st, args, path, callee):
    return ret(d(ex, args[0]), path)


def c_enumerate(ex, st, args, path, callee):
    sl = args[0]
    return ret(Slice(sl.length, [Struct([z3.IntVal(k), e]) for k, e in enumerate(sl.elems)], 'enumerate'), path)


def c_filter_map(ex, st, args, path, callee):
    return ret(Struct([args[0], args[1], callee], 'FilterMap'), path)


def c_collect(ex, st, args, path, callee):
    fm = args[0]
    if not (isinstance(fm, Struct) and fm.ty == 'FilterMap'):
        raise Unsupported('collect of ' + str(fm))
    it, env, fcallee = fm.fields
    f = ex.find_closure(fcallee)
    states = [([], path, st['mem'])]
    for item in it.elems:
        nxt = []
        for acc, p, mem in states:
            mem2 = dict(mem)
            ex._tmp = getattr(ex, '_tmp', 0) + 1
            key = ('tmp', ex._tmp, 'env')
            mem2[key] = env
            for v, p2, m2 in ex.run(f, [Ref(key), item], p, 1, (), mem2):
                if v.variant == 'Some':
                    nxt.append((acc + [v.fields[0]], p2, m2))
                else:
                    nxt.append((acc, p2, m2))
        states = nxt
    return [('ret', Slice(z3.IntVal(len(acc)), acc, 'vec'), p, mem) for acc, p, mem in states]


def c_is_multiple_of_concrete(ex, st, args, path, callee):
    """u32::is_multiple_of(k, b) with concrete k: complete case split on b (b = 0, 1..k, > k)"""
    a, b = args
    k = concrete(a)
    if k is None:
        raise Unsupported('is_multiple_of with symbolic dividend in the selection closure')
    out = []
    cases = [(b == 0, z3.BoolVal(k == 0))] + [(b == j, z3.BoolVal(k % j == 0)) for j in range(1, k + 1)] + [(b > k, z3.BoolVal(k == 0))]
    for c, v in cases:
        p = path.add(c)
        if ex.feasible(p.conds):
            out.append(('ret', v, p))
    return out


SEQ = [
    ('[T]::index(Range<usize>) on a sequence of positions (panics unless start <= end <= len)', r'^<\[T\] as (std::ops::)?Index<(std::ops::)?Range<usize>>>::index$', c_index_range),
    ('[T]::to_vec = same sequence', r'^(std|core|alloc)::slice::<impl \[T\]>::to_vec$', c_to_vec),
    ('Vec::new = empty sequence', r'^Vec::<T>::new$', c_vec_new),
    ('Vec::deref_mut = the same sequence', r'^<Vec<T> as (std::ops::)?DerefMut>::deref_mut$', c_deref_mut),
    ('[T]::reverse = reversed sequence', r'^(std|core)::slice::<impl \[T\]>::reverse$', c_reverse),
    ('Vec::into_iter', r'^<Vec<T> as IntoIterator>::into_iter$', c_into_iter),
    ('Iterator::enumerate', r'as Iterator>::enumerate$', c_enumerate),
    ('Iterator::filter_map (lazy)', r'as Iterator>::filter_map::<', c_filter_map),
    ('Iterator::collect::<Vec<T>> runs the repository closure once per position', r'as Iterator>::collect::<Vec<T>>$', c_collect),
    ('u32::is_multiple_of(concrete k, b): case split on b', r'^core::num::<impl u32>::is_multiple_of$', c_is_multiple_of_concrete),
]


def run(sess):
    from . import c01
    N = 6 if sess.tier == 'quick' else 8
    obs = []
    for L in range(N + 1):
        for ks, ke, kt in itertools.product(('absent', 'int'), repeat=3):
            t1 = time.time()
            ob = Obligation(f'C01.apply_slice[len={L},{ks},{ke},{kt}]', 'xs[start:stop:stride] selects exactly the positions list(range(len))[start:stop:stride] selects in Python, in that order',
                            f'sequence length {L}; every i32 / absent start, stop, stride')
            try:
                ex = sess.executor(True, extra=SEQ + c01.EXTRA)
                (s_, sx, sc), (e_, exx, ec), (t_, tx, tc) = c01.opt_value(ks, 'start'), c01.opt_value(ke, 'stop'), c01.opt_value(kt, 'step')
                xs = Slice(z3.IntVal(L), [z3.IntVal(i) for i in range(L)], 'input')
                fn = ex.get_fn(sess.db.find(r'^fn (?:[\w:]*::)?apply_slice\(_1: &\[T\]'))
                outs = ex.run(fn, [xs, s_, e_, t_], Path(sc + ec + tc))
                ob.paths = len(outs)
                step = tx if tx is not None else z3.IntVal(1)
                Lz = z3.IntVal(L)
                rs, re_ = c01.py_adjust(sx, step, Lz, True), c01.py_adjust(exx, step, Lz, False)

                def wit(m):
                    f = lambda k, t: 'absent' if k != 'int' else model_int(m, t)
                    return {'kind': 'selection', 'len': L, 'start': f(ks, sx), 'stop': f(ke, exx), 'step': f(kt, tx)}
                for v, p, m in outs:
                    if v.variant == 'Err':
                        c01.check_viol(sess, ob, p.conds, step != 0, [], wit)
                        continue
                    res = ex.deref(m, v.fields[0])
                    got = res.elems
                    n = len(got)
                    # reference: positions rs, rs+step, ... while in (rs, re_) direction; at most L elements
                    exp_len = c01.py_range_len(rs, re_, step)
                    viol = [step == 0, exp_len != n] + [got[i] != rs + i * step for i in range(n)]
                    c01.check_viol(sess, ob, p.conds, z3.Or(viol), [], wit)
                c01.finish(sess, ob, ex, outs, t1, wit)
            except Unsupported as e:
                ob.inconclusive(f'unsupported MIR: {e}')
                ob.wall_s = time.time() - t1
                sess.add(ob)
            except LookupError as e:
                ob.inconclusive(f'function not found: {e}')
                ob.wall_s = time.time() - t1
                sess.add(ob)
            obs.append(ob)
    return obs


def replay_witness(w, rp):
    L = w['len']
    f = lambda v: '' if v == 'absent' else str(v)
    sl = slice(*[None if w[x] == 'absent' else w[x] for x in ('start', 'stop', 'step')])
    prog = f'list(range({L}))[{f(w["start"])}:{f(w["stop"])}:{f(w["step"])}]'
    cases = [{'kind': 'eval', 'program': prog}, {'kind': 'eval', 'program': 'tuple(' + prog + ')'}]
    try:
        expect = str(list(range(L))[sl])
    except ValueError:
        expect = None
    repro = False
    got = {}
    for profile in ('dev', 'release'):
        res = rp.run(cases, profile)
        got[profile] = res
        for g in res:
            if 'panic' in g or 'abort' in g:
                repro = True
            elif expect is None:
                if 'err' not in g:
                    repro = True
            else:
                gv = (g.get('ok') or '').replace('(', '[').replace(')', ']').replace(',]', ']')
                if gv != expect:
                    repro = True
    return {'reproduced': repro, 'role': 'sequence slice selection', 'detail': f'{prog} expected {expect}; native {str(got)[:400]}', 'cases': cases}
