"""apply_slice element selection (placeholder; see below)"""


def run(sess):
    return []


def replay_witness(w, rp):
    return {'reproduced': False, 'role': 'selection', 'detail': 'not implemented'}
