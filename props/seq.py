"""Contracts for std slice / iterator calls over sequences of *concrete* length (elements may be symbolic).
The iterator state is (list of pending items, position); adaptors transform the pending list eagerly; `skip(n)` / `take(n)`
with symbolic n case-split on n.  With these the executor runs real MIR loops (`for x in xs.iter().zip(ys)`)."""
import z3

from .common import Struct, Ref, Slice, Unsupported, ret, SOME, NONE, d


def concrete(t):
    t = z3.simplify(t)
    return t.as_long() if z3.is_int_value(t) else None


def mk(items):
    return Struct([items, 0], 'SeqIter')


def pending(it):
    return it.fields[0][it.fields[1]:]


def as_items(ex, v):
    v = d(ex, v)
    if isinstance(v, Struct) and v.ty == 'SeqIter':
        return pending(v)
    if isinstance(v, Slice) and v.elems is not None:
        return [('ref', e) for e in v.elems]
    raise Unsupported(f'not a sequence: {v}')


def c_iter(ex, st, args, path, callee):
    return ret(mk(as_items(ex, args[0])), path)


def c_copied(ex, st, args, path, callee):
    return ret(mk([(('val', x[1]) if x[0] == 'ref' else x) for x in pending(args[0])]), path)


def c_enumerate(ex, st, args, path, callee):
    return ret(mk([('pair', ('val', z3.IntVal(i)), x) for i, x in enumerate(pending(args[0]))]), path)


def c_zip(ex, st, args, path, callee):
    a, b = pending(args[0]), as_items(ex, args[1])
    return ret(mk([('pair', x, y) for x, y in zip(a, b)]), path)


def c_zip_longest(ex, st, args, path, callee):
    a, b = pending(args[0]), as_items(ex, args[1])
    out = [('eob', 'Both', x, y) for x, y in zip(a, b)]
    out += [('eob', 'Left', x, None) for x in a[len(b):]] + [('eob', 'Right', None, y) for y in b[len(a):]]
    return ret(mk(out), path)


def c_rev(ex, st, args, path, callee):
    return ret(mk(list(reversed(pending(args[0])))), path)


def c_skip_take(which):
    def f(ex, st, args, path, callee):
        items = pending(args[0])
        n = args[1]
        out = []
        for c in range(len(items) + 1):
            cond = (n == c) if c < len(items) else (n >= c)
            p = path.add(cond)
            if ex.feasible(p.conds):
                out.append(('ret', mk(items[c:] if which == 'skip' else items[:c]), p))
        return out
    return f


def c_into_iter(ex, st, args, path, callee):
    return ret(mk(as_items(ex, args[0])), path)


def materialise(ex, mem, item):
    if item[0] == 'ref':
        ex._tmp = getattr(ex, '_tmp', 0) + 1
        key = ('tmp', ex._tmp, 'elem')
        mem[key] = item[1]
        return Ref(key)
    if item[0] == 'val':
        return item[1]
    if item[0] == 'pair':
        return Struct([materialise(ex, mem, item[1]), materialise(ex, mem, item[2])])
    if item[0] == 'eob':
        from .common import Enum
        return Enum(item[1], [materialise(ex, mem, x) for x in item[2:] if x is not None], 'EitherOrBoth')
    raise Unsupported(f'iterator item {item}')


def c_next(ex, st, args, path, callee):
    r = args[0]
    it = ex.read_ref(st['mem'], r)
    items, i = it.fields
    if i >= len(items):
        return ret(NONE(), path)
    mem = dict(st['mem'])
    st2 = dict(st)
    st2['mem'] = mem
    ex.write_ref(st2, r, Struct([items, i + 1], 'SeqIter'))
    return [('ret', SOME(materialise(ex, mem, items[i])), path, mem)]


def c_position(ex, st, args, path, callee):
    """Iterator::position(closure): the repository closure is run on each pending item until it answers true"""
    items = pending(args[0]) if not isinstance(args[0], Ref) else pending(ex.read_ref(st['mem'], args[0]))
    f = ex.find_closure(callee)
    out = []
    frontier = [(path, st['mem'])]
    for i, item in enumerate(items):
        nxt = []
        for p, mem in frontier:
            mem2 = dict(mem)
            arg = materialise(ex, mem2, item)
            ex._tmp = getattr(ex, '_tmp', 0) + 1
            key = ('tmp', ex._tmp, 'clo')
            mem2[key] = args[1]
            for v, p2, m2 in ex.run(f, [Ref(key), arg], p, 1, (), mem2):
                pt = p2.add(v)
                if ex.feasible(pt.conds):
                    out.append(('ret', SOME(z3.IntVal(i)), pt, m2))
                pf = p2.add(z3.Not(v))
                if ex.feasible(pf.conds):
                    nxt.append((pf, m2))
        frontier = nxt
    for p, mem in frontier:
        out.append(('ret', NONE(), p, mem))
    return out


def c_get_usize(ex, st, args, path, callee):
    sl = d(ex, args[0])
    i = concrete(args[1])
    if i is None or sl.elems is None:
        raise Unsupported('slice get with symbolic index')
    if i >= len(sl.elems):
        return ret(NONE(), path)
    mem = dict(st['mem'])
    ex._tmp = getattr(ex, '_tmp', 0) + 1
    key = ('tmp', ex._tmp, 'elem')
    mem[key] = sl.elems[i]
    return [('ret', SOME(Ref(key)), path, mem)]


def c_slice_len(ex, st, args, path, callee):
    return ret(d(ex, args[0]).length, path)


ITER = [
    ('[T]::iter', r'slice::<impl \[.*\]>::iter$', c_iter),
    ('[T]::len', r'slice::<impl \[.*\]>::len$', c_slice_len),
    ('Iterator::copied / cloned', r' as Iterator>::(copied|cloned)(::<.*>)?$', c_copied),
    ('Iterator::enumerate', r' as Iterator>::enumerate$', c_enumerate),
    ('Iterator::zip', r' as Iterator>::zip::<', c_zip),
    ('Itertools::zip_longest', r' as Itertools>::zip_longest::<', c_zip_longest),
    ('Iterator::rev', r' as Iterator>::rev$', c_rev),
    ('Iterator::skip(n): case split on n', r' as Iterator>::skip$', c_skip_take('skip')),
    ('Iterator::take(n): case split on n', r' as Iterator>::take$', c_skip_take('take')),
    ('IntoIterator::into_iter', r' as IntoIterator>::into_iter$', c_into_iter),
    ('Iterator::next on a sequence iterator', r' as Iterator>::next$', c_next),
    ('Iterator::position (runs the repository closure)', r' as Iterator>::position::<', c_position),
    ('[T]::get(usize)', r'slice::<impl \[.*\]>::get::<usize>$', c_get_usize),
]
