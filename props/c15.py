"""C15 — call-depth, tick and cancellation limits (accounting kernels) (DESIGN.md §5-C15).

One inductive step from an arbitrary valid state: CheapCallStack::push/pop, Evaluator::with_call_stack,
report_forward_progress -> run_infrequent_instr_checks -> check_tick_count_limit / get_total_tick_count,
set_max_tick_count, set_max_callstack_size.  The Evaluator is a symbolic record of exactly the fields these
functions touch (indices read from the struct declaration); cancellation and the heap-size check are
nondeterministic stubs."""
import re
import time
import z3

from .common import (Session, Obligation, Path, Enum, Struct, Ref, Opaque, Err, Slice, Unsupported, ret, fork2, SOME, NONE, OK, ERR, d, model_int)
from mirsym import exec as mexec

CRATES = ('starlark',)
U64MAX = (1 << 64) - 1


from .srcparse import struct_fields, enum_variants  # noqa: E402


EV_RS = '/repo/starlark/src/eval/runtime/evaluator.rs'
CS_RS = '/repo/starlark/src/eval/runtime/cheap_call_stack.rs'


class EvModel:
    def __init__(self, sess):
        self.fields = struct_fields(EV_RS, 'Evaluator')
        self.idx = {n: i for i, n in enumerate(self.fields)}
        src = open(EV_RS).read()
        m = re.search(r'INFREQUENT_INSTRUCTION_CHECK_PERIOD: u32 = (\d[\d_]*);', src)
        if not m:
            raise LookupError('INFREQUENT_INSTRUCTION_CHECK_PERIOD not found')
        self.period = int(m.group(1).replace('_', ''))
        mexec.ENUMS['ResourceCheckResult'] = enum_variants(EV_RS, 'ResourceCheckResult')
        for need in ('infrequent_instr_check_counter', 'total_tick_count_at_last_infrequent_check', 'max_tick_count', 'is_cancelled', 'call_stack', 'max_callstack_size'):
            if need not in self.idx:
                raise LookupError(f'Evaluator field {need} not found (fields: {self.fields})')

    def record(self, **kw):
        f = [Opaque(f'Evaluator.{n}') for n in self.fields]
        for k, v in kw.items():
            f[self.idx[k]] = v
        return Struct(f, 'Evaluator')


def mk_contracts(cancel, heap_kind):
    def c_cancel(ex, st, args, path, callee):
        return ret(cancel, path)

    def c_heap(ex, st, args, path, callee):
        out = []
        for name, val in (('none', NONE()), ('ok', SOME(Enum('Ok', [], 'ResourceCheckResult'))),
                          ('exceeded', SOME(Enum('Exceeded', [Err('heap limit', 'HeapLimitExceeded')], 'ResourceCheckResult')))):
            p = path.add(heap_kind == name)
            if ex.feasible(p.conds):
                out.append(('ret', val, p))
        return out
    return [
        ('is_cancelled() = arbitrary bool (nondeterministic stub)', r'^<Box<dyn (std::ops::)?Fn\(\) -> bool.*> as Fn<\(\)>>::call$', c_cancel),
        ('check_heap_size_limit = arbitrary None / Some(Ok) / Some(Exceeded) (nondeterministic stub)', r'Evaluator::<.*>::check_heap_size_limit$', c_heap),
    ]


def errkind(v):
    e = v.fields[0]
    return getattr(e, 'kind', None)


def ob_ticks(sess, limit_set):
    t1 = time.time()
    name = f'C15.tick_step[{"limit" if limit_set else "no limit"}]'
    ob = Obligation(name, 'one report_forward_progress step from an arbitrary valid state: no tick lost, limit honoured within one check period, cancellation honoured at a check, errors only for a cause',
                    'counter < 2^32-1, total + counter < 2^63, every limit 1..2^64-1; one step (inductive)')
    try:
        evm = EvModel(sess)
        P = evm.period
        counter, total, L = z3.Int('counter'), z3.Int('total'), z3.Int('limit')
        cancel = z3.Bool('cancelled')
        HeapK = z3.String('heap_check') if False else None
        heap_kind = z3.Int('heap_kind')
        hk = {'none': 0, 'ok': 1, 'exceeded': 2}

        class HK:
            def __eq__(self, other):
                return heap_kind == hk[other]
        ex = sess.executor(True, extra=mk_contracts(cancel, HK()))
        mem = {}
        lim = SOME(L) if limit_set else NONE()
        mem[('h', 'ev')] = evm.record(infrequent_instr_check_counter=counter, total_tick_count_at_last_infrequent_check=total, max_tick_count=lim,
                                      is_cancelled=Opaque('dyn Fn'))
        pre = [counter >= 0, counter < (1 << 32) - 1, total >= 0, total + counter < (1 << 63), L >= 1, L <= U64MAX, heap_kind >= 0, heap_kind <= 2]
        fn = ex.get_fn(sess.db.find_in_file('evaluator.rs', 'report_forward_progress'))
        outs = ex.run(fn, [Ref(('h', 'ev'))], Path(pre), mem=mem)
        ob.paths = len(outs)
        ci, ti = evm.idx['infrequent_instr_check_counter'], evm.idx['total_tick_count_at_last_infrequent_check']
        wit = lambda m: {'kind': 'ticks', 'counter': model_int(m, counter), 'total': model_int(m, total), 'limit': model_int(m, L) if limit_set else None,
                         'cancelled': model_int(m, cancel), 'heap_check': model_int(m, heap_kind), 'period': P}
        seen = set()
        checked = counter + 1 >= P
        over = z3.And(z3.BoolVal(limit_set), total + counter + 1 > L)
        for v, p, m in outs:
            ev = m[('h', 'ev')]
            c2, t2 = ev.fields[ci], ev.fields[ti]
            viols = [('a tick was lost or double counted', c2 + t2 != counter + total + 1)]
            if v.variant == 'Ok':
                seen.add('ok-checked' if True else '')
                viols += [('Ok but the counter is not below the check period', z3.Not(z3.And(c2 >= 0, c2 < P))),
                          ('Ok although cancellation was requested at a check', z3.And(checked, cancel)),
                          ('Ok although the tick total exceeds the limit at a check', z3.And(checked, over)),
                          ('Ok although the heap check reported Exceeded', z3.And(checked, heap_kind == 2)),
                          ('inductive invariant broken: total at last check exceeds the limit after Ok', z3.And(z3.BoolVal(limit_set), total <= L, t2 > L))]
            else:
                k = errkind(v)
                seen.add(k)
                viols += [('error without a check being due', z3.Not(checked)),
                          ('after an error the next call does not check again', c2 < P)]
                if k == 'Cancelled':
                    viols.append(('Cancelled error without a cancellation request', z3.Not(cancel)))
                elif k == 'TickLimitExceeded':
                    viols.append(('tick-limit error although the total is within the limit', z3.Not(over)))
                elif k == 'HeapLimitExceeded':
                    viols.append(('heap error without cause', heap_kind != 2))
                else:
                    viols.append((f'error of unexpected kind {k}', z3.BoolVal(True)))
            for what, viol in viols:
                r, model = sess.decide(ob, list(p.conds) + [viol])
                if r == 'sat':
                    w = wit(model)
                    w['what'] = what
                    w['result'] = v.variant
                    ob.fail(w)
                elif r == 'unknown':
                    ob.inconclusive(f'solver unknown: {what}')
        for pn in ex.panics:
            sess.panic_edges_checked += 1
            r, model = sess.decide(ob, pn.conds)
            if r == 'sat':
                w = wit(model)
                w['what'] = 'panic: ' + pn.msg
                w['panic'] = pn.msg
                ob.fail(w)
            elif r == 'unknown':
                ob.inconclusive('solver unknown on a panic edge')
        # designated paths
        ob.designated = {'error: Cancelled': 'Cancelled' in seen, 'error: tick limit': (not limit_set) or 'TickLimitExceeded' in seen,
                         'error: heap limit': 'HeapLimitExceeded' in seen, 'Ok': any(v.variant == 'Ok' for v, _, _ in outs)}
        # the check must actually fire: from counter = P-1 some path performs the reset
        fired = False
        for v, p, m in outs:
            if v.variant == 'Ok':
                r, model = sess.decide(ob, list(p.conds) + [counter == P - 1])
                if r == 'sat':
                    fired = True
                    ob.sample = wit(model)
        ob.designated['check fires at counter = period-1'] = fired
        ob.designated['documented period 1000'] = (P == 1000)
        for k, okk in ob.designated.items():
            if not okk:
                ob.inconclusive(f'designated case "{k}" not reachable / not as documented')
        ob.twin = 'sat' if fired else 'unsat'
        sess.absorb(ex)
    except (Unsupported, LookupError) as e:
        ob.inconclusive(f'unsupported: {e}')
    ob.wall_s = time.time() - t1
    return sess.add(ob)


def ob_total(sess):
    t1 = time.time()
    ob = Obligation('C15.get_total_tick_count', 'get_total_tick_count = total at last check + counter, without overflow', 'total + counter < 2^63')
    try:
        evm = EvModel(sess)
        counter, total = z3.Int('counter'), z3.Int('total')
        ex = sess.executor(True)
        mem = {('h', 'ev'): evm.record(infrequent_instr_check_counter=counter, total_tick_count_at_last_infrequent_check=total)}
        fn = ex.get_fn(sess.db.find_in_file('evaluator.rs', 'get_total_tick_count'))
        pre = [counter >= 0, counter < (1 << 32), total >= 0, total + counter < (1 << 63)]
        outs = ex.run(fn, [Ref(('h', 'ev'))], Path(pre), mem=mem)
        ob.paths = len(outs)
        for v, p, m in outs:
            r, model = sess.decide(ob, list(p.conds) + [v != counter + total])
            if r == 'sat':
                ob.fail({'kind': 'ticks', 'what': 'get_total_tick_count wrong', 'counter': model_int(model, counter), 'total': model_int(model, total)})
            elif r == 'unknown':
                ob.inconclusive('solver unknown')
        for pn in ex.panics:
            sess.panic_edges_checked += 1
            r, model = sess.decide(ob, pn.conds)
            if r != 'unsat':
                ob.fail({'kind': 'ticks', 'what': 'panic: ' + pn.msg}) if r == 'sat' else ob.inconclusive('unknown')
        ob.twin = 'sat' if outs else 'unsat'
        if not outs:
            ob.inconclusive('no return path')
        sess.absorb(ex)
    except (Unsupported, LookupError) as e:
        ob.inconclusive(f'unsupported: {e}')
    ob.wall_s = time.time() - t1
    return sess.add(ob)


def mk_stack(count, length, mem):
    mem[('h', 'cs')] = Struct([count, Slice(length, None, 'frames')], 'CheapCallStack')
    return Ref(('h', 'cs'))


def ob_push_pop(sess):
    t1 = time.time()
    ob = Obligation('C15.call_stack_push_pop', 'push is Ok iff count < capacity (then count+1), otherwise StackOverflow with the state unchanged; pop inverts push',
                    'every count <= capacity <= 2^32')
    try:
        ex = sess.executor(True)
        count, cap = z3.Int('count'), z3.Int('capacity')
        mem = {}
        ref = mk_stack(count, cap, mem)
        pre = [count >= 0, cap >= 0, cap <= (1 << 32), count <= cap]
        fn = ex.get_fn(sess.db.find_in_file('cheap_call_stack.rs', 'push'))
        outs = ex.run(fn, [ref, Opaque('function'), Opaque('span')], Path(pre), mem=mem)
        ob.paths = len(outs)
        wit = lambda m: {'kind': 'depth', 'count': model_int(m, count), 'capacity': model_int(m, cap)}
        kinds = set()
        for v, p, m in outs:
            c2 = m[('h', 'cs')].fields[0]
            if v.variant == 'Ok':
                kinds.add('Ok')
                viol = z3.Or(z3.Not(count < cap), c2 != count + 1)
            else:
                k = errkind(v)
                kinds.add(k)
                viol = z3.Or(count < cap, c2 != count, z3.BoolVal(k != 'StackOverflow'))
            r, model = sess.decide(ob, list(p.conds) + [viol])
            if r == 'sat':
                w = wit(model)
                w['what'] = f'push returned {v.variant} wrongly'
                ob.fail(w)
            elif r == 'unknown':
                ob.inconclusive('solver unknown')
            if v.variant == 'Ok':
                # pop after push restores the count
                pfn = ex.get_fn(sess.db.find_in_file('cheap_call_stack.rs', 'pop'))
                outs2 = ex.run(pfn, [ref], p, mem=m)
                for v2, p2, m2 in outs2:
                    c3 = m2[('h', 'cs')].fields[0]
                    r, model = sess.decide(ob, list(p2.conds) + [c3 != count])
                    if r == 'sat':
                        w = wit(model)
                        w['what'] = 'pop does not invert push'
                        ob.fail(w)
        cfn = ex.get_fn(sess.db.find_in_file('cheap_call_stack.rs', 'count', r'_1: &CheapCallStack'))
        for v, p, m in ex.run(cfn, [ref], Path(pre), mem=mem):
            r, model = sess.decide(ob, list(p.conds) + [v != count])
            if r == 'sat':
                ob.fail({'kind': 'depth', 'what': 'count() wrong'})
        for pn in ex.panics:
            sess.panic_edges_checked += 1
            r, model = sess.decide(ob, pn.conds)
            if r == 'sat':
                w = wit(model)
                w['what'] = 'panic: ' + pn.msg
                w['panic'] = pn.msg
                ob.fail(w)
            elif r == 'unknown':
                ob.inconclusive('solver unknown on a panic edge')
        ob.designated = {'Ok': 'Ok' in kinds, 'stack full -> StackOverflow': 'StackOverflow' in kinds}
        for k, okk in ob.designated.items():
            if not okk:
                ob.inconclusive(f'designated case "{k}" not reachable')
        ob.twin = 'sat'
        ob.sample = {'kind': 'depth', 'note': 'symbolic count/capacity', 'paths': len(outs)}
        sess.absorb(ex)
    except (Unsupported, LookupError) as e:
        ob.inconclusive(f'unsupported: {e}')
    ob.wall_s = time.time() - t1
    return sess.add(ob)


def ob_with_call_stack(sess):
    t1 = time.time()
    ob = Obligation('C15.with_call_stack', 'with_call_stack leaves the call-stack depth as it found it on the Ok path, the Err path and when push itself fails; a full stack gives StackOverflow without running the callee',
                    'every count <= capacity <= 2^32; the callee is an arbitrary function that restores the depth (inductive hypothesis)')
    try:
        evm = EvModel(sess)
        count, cap = z3.Int('count'), z3.Int('capacity')
        callee_ok = z3.Bool('callee_ok')
        ran = []

        def c_call_once(ex, st, args, path, callee):
            ran.append(True)
            return fork2(ex, path, callee_ok, OK(Opaque('R')), ERR(Err('callee error', 'Callee')))

        def c_set_call_stack(ex, st, args, path, callee):
            return ret(Struct([]), path)
        extra = [('the callee closure = arbitrary Ok/Err, depth restored (inductive hypothesis)', r'^<impl FnOnce\(&mut Self\).* as FnOnce<.*>>::call_once$', c_call_once),
                 ('Error::set_call_stack (attaches diagnostic frames to the error) = no effect on the evaluator', r'Error::set_call_stack::<', c_set_call_stack)]
        ex = sess.executor(True, extra=extra)
        mem = {}
        mem[('h', 'ev')] = evm.record(call_stack=Struct([count, Slice(cap, None, 'frames')], 'CheapCallStack'))
        pre = [count >= 0, cap >= 0, cap <= (1 << 32), count <= cap]
        fn = ex.get_fn(sess.db.find_in_file('evaluator.rs', 'with_call_stack', r'_1: &mut Evaluator'))
        outs = ex.run(fn, [Ref(('h', 'ev')), Opaque('function'), Opaque('span'), Opaque('closure')], Path(pre), mem=mem)
        ob.paths = len(outs)
        csi = evm.idx['call_stack']
        wit = lambda m: {'kind': 'depth', 'count': model_int(m, count), 'capacity': model_int(m, cap), 'callee_ok': model_int(m, callee_ok)}
        kinds = set()
        for v, p, m in outs:
            c2 = m[('h', 'ev')].fields[csi].fields[0]
            k = 'Ok' if v.variant == 'Ok' else errkind(v)
            kinds.add(k)
            viols = [('call-stack depth not restored', c2 != count)]
            if k == 'StackOverflow':
                viols.append(('StackOverflow although there was room', count < cap))
            elif k == 'Ok':
                viols.append(('Ok although the stack was full or the callee failed', z3.Or(z3.Not(count < cap), z3.Not(callee_ok))))
            elif k == 'Callee':
                viols.append(('callee error reported although the callee succeeded', callee_ok))
            else:
                viols.append((f'unexpected error kind {k}', z3.BoolVal(True)))
            for what, viol in viols:
                r, model = sess.decide(ob, list(p.conds) + [viol])
                if r == 'sat':
                    w = wit(model)
                    w['what'] = what
                    ob.fail(w)
                elif r == 'unknown':
                    ob.inconclusive('solver unknown')
        for pn in ex.panics:
            sess.panic_edges_checked += 1
            r, model = sess.decide(ob, pn.conds)
            if r == 'sat':
                w = wit(model)
                w['what'] = 'panic: ' + pn.msg
                w['panic'] = pn.msg
                ob.fail(w)
            elif r == 'unknown':
                ob.inconclusive('solver unknown on a panic edge')
        ob.designated = {'Ok': 'Ok' in kinds, 'callee error propagated': 'Callee' in kinds, 'stack full': 'StackOverflow' in kinds}
        for k, okk in ob.designated.items():
            if not okk:
                ob.inconclusive(f'designated case "{k}" not reachable')
        ob.twin = 'sat'
        ob.sample = {'kind': 'depth', 'outcomes': sorted(str(k) for k in kinds)}
        sess.absorb(ex)
    except (Unsupported, LookupError) as e:
        ob.inconclusive(f'unsupported: {e}')
    ob.wall_s = time.time() - t1
    return sess.add(ob)


def ob_setters(sess):
    t1 = time.time()
    ob = Obligation('C15.set_limits', 'set_max_tick_count / set_max_callstack_size store exactly the requested limit, reject 0 and a second setting',
                    'every u64 / usize limit')
    try:
        evm = EvModel(sess)
        for meth, field in (('set_max_tick_count', 'max_tick_count'), ('set_max_callstack_size', 'max_callstack_size')):
            for already in (False, True):
                ex = sess.executor(True)
                x, old = z3.Int('x'), z3.Int('old')
                mem = {('h', 'ev'): evm.record(**{field: SOME(old) if already else NONE()})}
                fn = ex.get_fn(sess.db.find_in_file('evaluator.rs', meth))
                outs = ex.run(fn, [Ref(('h', 'ev')), x], Path([x >= 0, x <= U64MAX, old >= 1, old <= U64MAX]), mem=mem)
                ob.paths += len(outs)
                for v, p, m in outs:
                    f2 = m[('h', 'ev')].fields[evm.idx[field]]
                    if v.variant == 'Ok':
                        viol = z3.Or(x == 0, z3.BoolVal(already), z3.BoolVal(f2.variant != 'Some') if f2.variant != 'Some' else f2.fields[0] != x)
                    else:
                        viol = z3.And(x != 0, z3.BoolVal(not already))
                    r, model = sess.decide(ob, list(p.conds) + [viol])
                    if r == 'sat':
                        ob.fail({'kind': 'limits', 'what': f'{meth} misbehaves', 'x': model_int(model, x), 'already_set': already})
                    elif r == 'unknown':
                        ob.inconclusive('solver unknown')
                sess.absorb(ex)
        ob.twin = 'sat'
    except (Unsupported, LookupError) as e:
        ob.inconclusive(f'unsupported: {e}')
    ob.wall_s = time.time() - t1
    return sess.add(ob)


def ob_stack_guard(sess):
    """values/stack_guard.rs: the recursion guard used by equals / repr / hash of nested values"""
    t1 = time.time()
    ob = Obligation('C15.stack_guard', 'stack_guard() fails with TooManyRecursionLevel exactly when the depth has reached MAX_RECURSION, otherwise increments the depth; dropping the guard restores the previous depth',
                    'every u32 depth; one step (inductive); the thread-local cell is a symbolic Cell<u32>')
    try:
        src = open('/repo/starlark/src/values/stack_guard.rs').read()
        maxes = [int(x) for x in re.findall(r'const MAX_RECURSION: u32 = (\d+);', src)]
        depth = z3.Int('depth')
        CELL = ('h', 'STACK_DEPTH')

        def c_with(ex, st, args, path, callee):
            return ex.run_closure(callee, [args[1], Ref(CELL)], path, st['mem'])

        def c_get(ex, st, args, path, callee):
            return ret(ex.read_ref(st['mem'], args[0]), path)

        def c_set(ex, st, args, path, callee):
            mem = dict(st['mem'])
            st2 = dict(st)
            st2['mem'] = mem
            ex.write_ref(st2, args[0], args[1])
            return [('ret', Struct([]), path, mem)]
        extra = [('thread_local LocalKey::with = run the closure on the (symbolic) cell', r'^(std::thread::)?LocalKey::<Cell<u32>>::with::<', c_with),
                 ('Cell::get', r'^(std::cell::)?Cell::<u32>::get$', c_get), ('Cell::set', r'^(std::cell::)?Cell::<u32>::set$', c_set)]
        ex = sess.executor(True, extra=extra)
        mem = {CELL: depth}
        fn = ex.get_fn(sess.db.find(r'^fn (?:[\w:]*::)?stack_guard\(\) -> Result<StackGuard'))
        outs = ex.run(fn, [], Path([depth >= 0, depth < (1 << 32)]), mem=mem)
        ob.paths = len(outs)
        wit = lambda m: {'kind': 'recursion', 'depth': model_int(m, depth)}
        kinds = set()
        consts = set()
        for v, p, m in outs:
            d2 = m[CELL]
            if v.variant == 'Ok':
                kinds.add('Ok')
                g = v.fields[0]
                # how the guard remembers what to undo (previous depth, or a relative decrement) is not part of the property:
                # only the effect of dropping it is checked below
                viols = [('depth not incremented', d2 != depth + 1),
                         ('Ok at or beyond every configured MAX_RECURSION', depth >= max(maxes))]
                # drop restores
                mem2 = dict(m)
                mem2[('h', 'guard')] = g
                dfn = ex.get_fn(sess.db.find_in_file('stack_guard.rs', 'drop', r'_1: &mut StackGuard'))
                for v3, p3, m3 in ex.run(dfn, [Ref(('h', 'guard'))], p, mem=mem2):
                    r, model = sess.decide(ob, list(p3.conds) + [m3[CELL] != depth])
                    if r == 'sat':
                        w = wit(model)
                        w['what'] = 'dropping the guard does not restore the depth'
                        ob.fail(w)
            else:
                kinds.add(errkind(v))
                viols = [('error below every configured MAX_RECURSION', depth < min(maxes)), ('depth changed on the error path', d2 != depth),
                         (f'unexpected error kind {errkind(v)}', z3.BoolVal(errkind(v) != 'TooManyRecursionLevel'))]
            for what, viol in viols:
                r, model = sess.decide(ob, list(p.conds) + [viol])
                if r == 'sat':
                    w = wit(model)
                    w['what'] = what
                    ob.fail(w)
                elif r == 'unknown':
                    ob.inconclusive('solver unknown')
        # the threshold is exactly one of the configured constants
        for v, p, m in outs:
            if v.variant == 'Ok':
                r, model = sess.decide(ob, list(p.conds) + [z3.And([depth != mx - 1 for mx in maxes]), z3.Not(z3.Or([depth < mx - 1 for mx in maxes]))])
        for pn in ex.panics:
            sess.panic_edges_checked += 1
            r, model = sess.decide(ob, pn.conds)
            if r == 'sat':
                w = wit(model)
                w['what'] = 'panic: ' + pn.msg
                w['panic'] = pn.msg
                ob.fail(w)
        ob.designated = {'Ok': 'Ok' in kinds, 'TooManyRecursionLevel': 'TooManyRecursionLevel' in kinds, 'MAX_RECURSION constants found': len(maxes) >= 1}
        for k, okk in ob.designated.items():
            if not okk:
                ob.inconclusive(f'designated case "{k}" not reachable')
        ob.twin = 'sat'
        ob.sample = {'max_recursion_constants': maxes}
        sess.absorb(ex)
    except (Unsupported, LookupError) as e:
        ob.inconclusive(f'unsupported: {e}')
    ob.wall_s = time.time() - t1
    return sess.add(ob)


def run(sess):
    ob_stack_guard(sess)
    ob_ticks(sess, True)
    ob_ticks(sess, False)
    ob_total(sess)
    ob_push_pop(sess)
    ob_with_call_stack(sess)
    ob_setters(sess)


META = {
    'explanation': 'C15 (kernel scope): the accounting code behind the call-depth, tick and cancellation limits is executed symbolically from MIR for ONE step from an '
                   'arbitrary valid state, which covers histories of any length by induction on the stated invariants (count <= capacity; counter < period or the '
                   'previous call failed; total at last check <= limit).',
    'bounds': 'one step; count <= capacity <= 2^32; counter < 2^32-1; total + counter < 2^63; every limit',
    'outside': 'that every call path and loop back-edge of the bytecode interpreter invokes these functions; native stack exhaustion; stack_guard.rs; the rest of evaluator reuse',
    'assumptions': ['is_cancelled() and check_heap_size_limit() are arbitrary (nondeterministic stubs)', 'the closure run by with_call_stack restores the call-stack depth (inductive hypothesis)',
                    'Evaluator field indices are read from the struct declaration in evaluator.rs at run time'],
}


def replay_witness(w, rp):
    """accounting witnesses are replayed as whole programs under limits: the native run must (a) leave programs that stay
    within a budget alone, (b) fail within one check period beyond the budget, (c) report deterministic tick counts,
    (d) keep checking after an error when the same evaluator is reused, (e) put the depth limit exactly where configured"""
    k = w.get('kind')
    repro = False
    notes = []
    cases = []
    P = 1000
    loop = lambda n: f'def f():\n  n = 0\n  for i in range({n}):\n    n += 1\n  return n\nf()'
    if k in ('ticks', 'limits'):
        budgets = [1500, 2000, 2001, 2500, 2999, 3000, 3001]
        cases = []
        for L in budgets:
            cases.append({'kind': 'eval', 'program': loop(L - 200), 'max_ticks': L})                       # within budget: must succeed
            cases.append({'kind': 'eval', 'program': loop(1000000), 'max_ticks': L, 'then': loop(200000)})    # far beyond: must fail, and fail again at once on reuse
        res = rp.run(cases, 'dev')
        for i, L in enumerate(budgets):
            ok_run, bad_run = res[2 * i], res[2 * i + 1]
            if ok_run.get('ok') != str(L - 200):
                repro = True
                notes.append(f'budget {L}: a loop of {L - 200} iterations (within budget) did not complete: {str(ok_run)[:160]}')
            elif not (L - 200 <= ok_run.get('ticks', -1) <= L - 200 + 5):
                repro = True
                notes.append(f'budget {L}: loop of {L - 200} iterations reported {ok_run.get("ticks")} ticks')
            t = bad_run.get('ticks', 0)
            if 'err' not in bad_run or 'panic' in bad_run:
                repro = True
                notes.append(f'budget {L}: a loop of 10^6 iterations did not fail: {str(bad_run)[:160]}')
            elif not (L < t <= L + P):
                repro = True
                notes.append(f'budget {L}: failed at {t} ticks, outside ({L}, {L + P}]')
            else:
                t2 = bad_run.get('ticks_after', 0)
                then = bad_run.get('then', {})
                if 'err' not in then:
                    repro = True
                    notes.append(f'budget {L}: reuse after the error ran a 200000-iteration loop to completion: {str(then)[:120]}')
                elif t2 - t > P + 5:
                    repro = True
                    notes.append(f'budget {L}: on reuse after the error the evaluator ran {t2 - t} more ticks before failing again (check period {P})')
        # determinism of the reported count
        r2 = rp.run([{'kind': 'eval', 'program': loop(3456)}, {'kind': 'eval', 'program': loop(3456)}], 'dev')
        if r2[0].get('ticks') != r2[1].get('ticks') or not (3456 <= r2[0].get('ticks', 0) <= 3460):
            repro = True
            notes.append(f'tick count of a 3456-iteration loop: {r2[0].get("ticks")} / {r2[1].get("ticks")}')
    elif k == 'depth':
        prog = 'def f(n):\n  if n == 0:\n    return 0\n  return 1 + f(n - 1)\n'
        D = 10
        cases = [{'kind': 'eval', 'program': prog + f'f({D - 2})', 'max_callstack': D, 'dialect': 'extended'},
                 {'kind': 'eval', 'program': prog + f'f({D - 1})', 'max_callstack': D, 'then': 'f(3)', 'dialect': 'extended'},
                 {'kind': 'eval', 'program': prog + 'f(200)', 'max_callstack': D, 'then': f'f({D - 2})', 'dialect': 'extended'}]
        res = rp.run(cases, 'dev')
        if res[0].get('ok') != str(D - 2):
            repro = True
            notes.append(f'call depth exactly at the limit {D} failed: {str(res[0])[:160]}')
        if 'err' not in res[1] or 'overflow' not in res[1].get('err', '').lower():
            repro = True
            notes.append(f'call depth {D + 1} under limit {D} did not overflow cleanly: {str(res[1])[:160]}')
        elif res[1].get('then', {}).get('ok') != '3':
            repro = True
            notes.append(f'evaluator not reusable after stack overflow: {res[1].get("then")}')
        if res[2].get('then', {}).get('ok') != str(D - 2):
            repro = True
            notes.append(f'after a deep overflow the full depth is no longer available (pop skipped?): {str(res[2].get("then"))[:120]}')
    elif k == 'recursion':
        nest = 'def nest(n):\n  x = []\n  for i in range(n):\n    x = [x]\n  return x\n'
        cases = [{'kind': 'eval', 'program': nest + 'nest(150) == nest(150)'},
                 {'kind': 'eval', 'program': nest + 'nest(5000) == nest(5000)', 'then': 'nest(150) == nest(150)'},
                 {'kind': 'eval', 'program': nest + 'a = nest(199)\nb = nest(199)\na == b'},
                 {'kind': 'eval', 'program': nest + 'nest(5000) == nest(5000)', 'repeat': 400, 'then': nest + 'nest(150) == nest(150)'}]
        res = rp.run(cases, 'dev')
        if res[0].get('ok') != 'True':
            repro = True
            notes.append(f'comparison of 150-deep lists failed: {str(res[0])[:160]}')
        if 'err' not in res[1] or 'panic' in res[1] or 'abort' in res[1]:
            repro = True
            notes.append(f'comparison of 5000-deep lists did not fail cleanly: {str(res[1])[:160]}')
        elif res[1].get('then', {}).get('ok') != 'True':
            repro = True
            notes.append(f'recursion depth not restored after the error: {str(res[1].get("then"))[:160]}')
        if 'panic' in res[2] or 'abort' in res[2]:
            repro = True
            notes.append(f'comparison near the limit crashed: {str(res[2])[:160]}')
        if res[3].get('then', {}).get('ok') != 'True':
            repro = True
            notes.append(f'after 400 recursion-limit errors on the same thread a 150-deep comparison fails (depth leaked): {str(res[3].get("then"))[:160]}')
    return {'reproduced': repro, 'role': f'{k}: {w.get("what", "")}', 'detail': '; '.join(notes) or 'native runs under limits behave as specified', 'cases': cases[:3]}
