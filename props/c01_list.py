"""C01: `list.index(x, start, end)` — the generated builtin body (a real MIR loop over a slice iterator) executed on lists of
bounded length whose elements are pairwise different; start / end are symbolic (every i32 or None), the needle is any
element or absent.  Iterator and slice calls of std are contracts over sequences; `Value::equals` is element identity."""
import itertools
import time
import z3

from .common import (Obligation, Path, Enum, Struct, Ref, Opaque, Err, Slice, Unsupported, ret, fork2, SOME, NONE, OK, ERR, d, model_int, I32_MIN, I32_MAX)
from mirsym import exec as mexec


def concrete(t):
    t = z3.simplify(t)
    return t.as_long() if z3.is_int_value(t) else None


def mk_contracts(needle):
    def c_deref(ex, st, args, path, callee):
        return ret(d(ex, args[0]), path)

    def c_get_range(ex, st, args, path, callee):
        sl = d(ex, args[0])
        rng = args[1]
        s, e = rng.fields[0], rng.fields[1]
        L = concrete(sl.length)
        out = []
        p = path.add(z3.Or(s > e, e > L))
        if ex.feasible(p.conds):
            out.append(('ret', NONE(), p))
        for a in range(L + 1):
            for b in range(a, L + 1):
                p = path.add(z3.And(s == a, e == b))
                if ex.feasible(p.conds):
                    out.append(('ret', SOME(Slice(z3.IntVal(b - a), list(sl.elems[a:b]), 'sub')), p))
        return out

    # ---- a small algebra of std iterators over sequences of concrete length: the state is (list of pending items, position)
    def mk(items):
        return Struct([items, 0], 'SeqIter')

    def c_iter(ex, st, args, path, callee):
        sl = d(ex, args[0])
        return ret(mk([('ref', e) for e in sl.elems]), path)

    def pending(it):
        return it.fields[0][it.fields[1]:]

    def c_copied(ex, st, args, path, callee):
        return ret(mk([(('val', x[1]) if x[0] == 'ref' else x) for x in pending(args[0])]), path)

    def c_enumerate(ex, st, args, path, callee):
        return ret(mk([('pair', i, x) for i, x in enumerate(pending(args[0]))]), path)

    def c_rev(ex, st, args, path, callee):
        return ret(mk(list(reversed(pending(args[0])))), path)

    def c_skip_take(which):
        def f(ex, st, args, path, callee):
            items = pending(args[0])
            n = args[1]
            out = []
            for c in range(len(items) + 1):
                cond = (n == c) if c < len(items) else (n >= c)
                p = path.add(cond)
                if ex.feasible(p.conds):
                    out.append(('ret', mk(items[c:] if which == 'skip' else items[:c]), p))
            return out
        return f

    def c_into_iter(ex, st, args, path, callee):
        a = args[0]
        if isinstance(a, Struct) and a.ty == 'SeqIter':
            return ret(a, path)
        sl = d(ex, a)
        return ret(mk([('ref', e) for e in sl.elems]), path)

    def materialise(ex, mem, item):
        if item[0] == 'ref':
            ex._tmp = getattr(ex, '_tmp', 0) + 1
            key = ('tmp', ex._tmp, 'elem')
            mem[key] = item[1]
            return Ref(key)
        if item[0] == 'val':
            return item[1]
        if item[0] == 'pair':
            return Struct([z3.IntVal(item[1]), materialise(ex, mem, item[2])])
        raise Unsupported(f'iterator item {item}')

    def c_next(ex, st, args, path, callee):
        r = args[0]
        it = ex.read_ref(st['mem'], r)
        items, i = it.fields
        if i >= len(items):
            return ret(NONE(), path)
        mem = dict(st['mem'])
        st2 = dict(st)
        st2['mem'] = mem
        ex.write_ref(st2, r, Struct([items, i + 1], 'SeqIter'))
        return [('ret', SOME(materialise(ex, mem, items[i])), path, mem)]

    def c_equals(ex, st, args, path, callee):
        a = d(ex, args[0])
        return ret(OK(a == needle), path)

    def c_opaque(ex, st, args, path, callee):
        return ret(Opaque('fmt'), path)

    def c_err(ex, st, args, path, callee):
        return ret(Err('not found', 'NotFound'), path)
    return [
        ('<ListRef as Deref>::deref = the element slice', r'^<ListRef<.*> as (std::ops::)?Deref>::deref$', c_deref),
        ('[T]::get(Range<usize>) = Some(sub-slice) iff start <= end <= len', r'slice::<impl \[.*\]>::get::<(std::ops::)?Range<usize>>$', c_get_range),
        ('[T]::iter', r'slice::<impl \[.*\]>::iter$', c_iter),
        ('Iterator::copied / cloned', r' as Iterator>::(copied|cloned)(::<.*>)?$', c_copied),
        ('Iterator::enumerate', r' as Iterator>::enumerate$', c_enumerate),
        ('Iterator::rev', r' as Iterator>::rev$', c_rev),
        ('Iterator::skip(n): case split on n', r' as Iterator>::skip$', c_skip_take('skip')),
        ('Iterator::take(n): case split on n', r' as Iterator>::take$', c_skip_take('take')),
        ('IntoIterator::into_iter', r' as IntoIterator>::into_iter$', c_into_iter),
        ('Iterator::next on a sequence iterator', r' as Iterator>::next$', c_next),
        ('Value::equals = element identity (elements pairwise different)', r'Value::<.*>::equals$', c_equals),
        ('fmt machinery of the error message = opaque', r'^core::fmt::|^std::fmt::|^(anyhow::__private::)?must_use::<', c_opaque),
        ('anyhow::Error::msg = error token', r'anyhow::error::<impl anyhow::Error>::msg::<', c_err),
    ]


def run(sess):
    from . import c01
    mexec.ENUMS['NoneOr'] = ['None', 'Other']
    N = 4 if sess.tier == 'quick' else 6
    obs = []
    for L in range(N + 1):
        for ks, ke in itertools.product(('none', 'int'), repeat=2):
            t1 = time.time()
            ob = Obligation(f'C01.list_index[len={L},{ks},{ke}]', 'xs.index(x, start, end) returns the position of x inside the Python window [start:end] (negative from the end, clamped) or fails when x is not in the window',
                            f'list of {L} pairwise different elements; needle any element or absent; every i32 / None start, end')
            try:
                k = z3.Int('needle')
                ex = sess.executor(True, extra=mk_contracts(k) + c01.EXTRA)
                xs = Slice(z3.IntVal(L), [z3.IntVal(i) for i in range(L)], 'list')
                mem = {('h', 'list'): xs}
                s, e = z3.Int('start'), z3.Int('end')
                sa = Enum('Other', [s], 'NoneOr') if ks == 'int' else Enum('None', [], 'NoneOr')
                ea = Enum('Other', [e], 'NoneOr') if ke == 'int' else Enum('None', [], 'NoneOr')
                fn = ex.get_fn(sess.db.find(r"^fn LIST_METHODS_STATICS::build::__starlark_invoke_impl\(_1: &ListRef<'_>, _2: layout::value::Value<'_>, _3: NoneOr<i32>, _4: NoneOr<i32>\)"))
                pre = [k >= -1, k < L, c01.I32(s), c01.I32(e)]
                outs = ex.run(fn, [Ref(('h', 'list')), Opaque('needle'), sa, ea], Path(pre), mem=mem)
                ob.paths = len(outs)
                Lz = z3.IntVal(L)
                ws = c01.py_clamp_index(s, Lz) if ks == 'int' else z3.IntVal(0)
                we = c01.py_clamp_index(e, Lz) if ke == 'int' else Lz
                found = z3.And(k >= 0, ws <= k, k < we)

                def wit(m):
                    return {'kind': 'list_index', 'len': L, 'needle': model_int(m, k), 'start': model_int(m, s) if ks == 'int' else None, 'end': model_int(m, e) if ke == 'int' else None}
                for v, p, m in outs:
                    if v.variant == 'Ok':
                        c01.check_viol(sess, ob, p.conds, z3.Or(z3.Not(found), v.fields[0] != k), [], wit)
                    else:
                        c01.check_viol(sess, ob, p.conds, found, [], wit)
                c01.finish(sess, ob, ex, outs, t1, wit)
            except Unsupported as ex_:
                ob.inconclusive(f'unsupported MIR: {ex_}')
                ob.wall_s = time.time() - t1
                sess.add(ob)
            except LookupError as ex_:
                ob.inconclusive(f'function not found: {ex_}')
                ob.wall_s = time.time() - t1
                sess.add(ob)
            obs.append(ob)
    return obs


def replay_witness(w, rp):
    L, k = w['len'], w['needle']
    xs = list(range(L))
    args = [str(k)] + ([str(w['start']) if w['start'] is not None else 'None'] if (w['start'] is not None or w['end'] is not None) else []) + ([str(w['end'])] if w['end'] is not None else [])
    prog = f'{xs}.index({", ".join(args)})'
    try:
        a = [k] + ([w['start'] if w['start'] is not None else 0] if (w['start'] is not None or w['end'] is not None) else []) + ([w['end']] if w['end'] is not None else [])
        expect = ('ok', str(xs.index(*a)))
    except ValueError:
        expect = ('err', None)
    repro = False
    got = {}
    for profile in ('dev', 'release'):
        g = rp.run([{'kind': 'eval', 'program': prog}], profile)[0]
        got[profile] = g
        if 'panic' in g or 'abort' in g:
            repro = True
        elif expect[0] == 'ok' and g.get('ok') != expect[1]:
            repro = True
        elif expect[0] == 'err' and 'err' not in g:
            repro = True
    return {'reproduced': repro, 'role': 'list.index window', 'detail': f'{prog} expected {expect}; native {str(got)[:300]}', 'cases': [prog]}
