"""C10 — integer arithmetic is exact at every magnitude (DESIGN.md §5-C10).

Every operator of the integer tower is executed symbolically from the MIR of
int/int_or_big.rs, int/inline_int.rs and bigint.rs for all four representation
combinations and compared with Python/Starlark integer semantics written here as SMT
terms; the type invariant (Big holds a value outside i32) is assumed on inputs and
asserted on every result."""
import itertools
import time
import z3

from .common import (Session, Obligation, Path, Enum, Struct, Ref, Big, Opaque, Unsupported, POW2, pow2_lemmas,
                     mk_small, mk_big, math_val, result_value, fdiv, fmod, floor_shr, model_int, model_signed,
                     I32_MIN, I32_MAX, INT_TY, in_range)

SHIFT_LIMIT = 100000


def shl_oracle(a, b):
    return a * POW2(b)


def shr_oracle(a, b):
    return floor_shr(a, POW2(b))


def cmp_term(a, b):
    return z3.If(a < b, z3.BitVecVal(-1, 8), z3.If(a == b, z3.BitVecVal(0, 8), z3.BitVecVal(1, 8)))


# name: (file, item, arg regex, mode, kind, oracle, error condition, python op for replay)
BINOPS = {
    'add': ('int_or_big.rs', 'add', r'_1: StarlarkIntRef<.*_2: StarlarkIntRef<', 'int', 'int', lambda a, b: a + b, None, '+'),
    'sub': ('int_or_big.rs', 'sub', r'_1: StarlarkIntRef<.*_2: StarlarkIntRef<', 'int', 'int', lambda a, b: a - b, None, '-'),
    'mul': ('int_or_big.rs', 'mul', r'_1: StarlarkIntRef<.*_2: StarlarkIntRef<', 'int', 'int', lambda a, b: a * b, None, '*'),
    'floor_div': ('int_or_big.rs', 'floor_div', r'_1: StarlarkIntRef<', 'int', 'result', fdiv, lambda a, b: b == 0, '//'),
    'percent': ('int_or_big.rs', 'percent', r'_1: StarlarkIntRef<', 'int', 'result', fmod, lambda a, b: b == 0, '%'),
    'left_shift': ('int_or_big.rs', 'left_shift', r'_1: StarlarkIntRef<', 'int', 'result', shl_oracle,
                   lambda a, b: z3.Or(b < 0, z3.And(a != 0, b > SHIFT_LIMIT)), '<<'),
    'right_shift': ('int_or_big.rs', 'right_shift', r'_1: StarlarkIntRef<', 'int', 'result', shr_oracle, lambda a, b: b < 0, '>>'),
    'bitand': ('int_or_big.rs', 'bitand', r'_1: StarlarkIntRef<.*_2: StarlarkIntRef<', 'bv', 'int', lambda a, b: a & b, None, '&'),
    'bitor': ('int_or_big.rs', 'bitor', r'_1: StarlarkIntRef<.*_2: StarlarkIntRef<', 'bv', 'int', lambda a, b: a | b, None, '|'),
    'bitxor': ('int_or_big.rs', 'bitxor', r'_1: StarlarkIntRef<.*_2: StarlarkIntRef<', 'bv', 'int', lambda a, b: a ^ b, None, '^'),
    'cmp': ('int_or_big.rs', 'cmp', r'_1: &StarlarkIntRef<.*_2: &StarlarkIntRef<', 'int', 'ordering', cmp_term, None, 'cmp'),
    'eq': ('int_or_big.rs', 'eq', r'_1: &StarlarkIntRef<.*_2: &StarlarkIntRef<', 'int', 'bool', lambda a, b: a == b, None, '=='),
}

UNOPS = {
    'neg': ('int_or_big.rs', 'neg', r'_1: StarlarkIntRef<', 'int', 'int', lambda a: -a, 'neg'),
    'not': ('int_or_big.rs', 'not', r'_1: StarlarkIntRef<', 'int', 'int', lambda a: -a - 1, 'not'),
    'abs': ('int_or_big.rs', 'abs', r'_1: StarlarkIntRef<', 'int', 'int', lambda a: z3.If(a < 0, -a, a), 'abs'),
    'is_negative': ('int_or_big.rs', 'is_negative', r'_1: StarlarkIntRef<', 'int', 'bool', lambda a: a < 0, None),
    'is_zero': ('int_or_big.rs', 'is_zero', r'_1: StarlarkIntRef<', 'int', 'bool', lambda a: a == 0, None),
    'to_i32': ('int_or_big.rs', 'to_i32', r'_1: StarlarkIntRef<', 'int', 'opt32', None, None),
    'to_u64': ('int_or_big.rs', 'to_u64', r'_1: StarlarkIntRef<', 'int', 'optu64', None, None),
}

DESIGNATED = {
    # op -> list of (name, lambda am, bm: condition that must be feasible together with a correct result)
    'add': [('i32::MAX + 1 -> big', lambda a, b: z3.And(a == I32_MAX, b == 1))],
    'floor_div': [('i32::MIN // -1 -> big', lambda a, b: z3.And(a == I32_MIN, b == -1)), ('division by zero', lambda a, b: b == 0),
                  ('negative quotient with remainder', lambda a, b: z3.And(a == -7, b == 2))],
    'percent': [('i32::MIN % -1', lambda a, b: z3.And(a == I32_MIN, b == -1)), ('modulo by zero', lambda a, b: b == 0),
                ('sign follows divisor', lambda a, b: z3.And(a == -7, b == 2))],
    'left_shift': [('1 << 31 -> big', lambda a, b: z3.And(a == 1, b == 31)), ('negative shift', lambda a, b: b == -1),
                   ('shift limit', lambda a, b: z3.And(a == 1, b == SHIFT_LIMIT + 1))],
    'right_shift': [('-1 >> 40', lambda a, b: z3.And(a == -1, b == 40)), ('negative shift', lambda a, b: b == -1)],
    'mul': [('65536 * 65536 -> big', lambda a, b: z3.And(a == 65536, b == 65536))],
}


def operands(ex, kinds, names, mem):
    out = []
    for k, nm in zip(kinds, names):
        if k == 'small':
            out.append(mk_small(ex, nm))
        else:
            out.append(mk_big(ex, nm, mem))
    return out


def witness_ints(model, ex, terms, kinds):
    vals = []
    for t, k in zip(terms, kinds):
        vals.append(model_int(model, t) if ex.intmode else model_signed(model, t))
    return vals


def check_binop(sess, opname, kinds_filter=None):
    file, item, argrx, mode, kind, oracle, errcond, pyop = BINOPS[opname]
    obs = []
    for ka, kb in itertools.product(('small', 'big'), repeat=2):
        if kinds_filter and (ka, kb) not in kinds_filter:
            continue
        t1 = time.time()
        intmode = (mode == 'int')
        bigw = 128 if sess.tier == 'quick' else 256
        ob = Obligation(f'C10.{opname}[{ka},{kb}]',
                        f'`{pyop}` on ({ka}, {kb}) returns the exact result{" or the documented error" if errcond else ""} in canonical representation',
                        'integer mode: no magnitude bound' if intmode else f'bit-vector mode: |big| < 2^{bigw - 2}')
        try:
            ex = sess.executor(intmode, bigw=bigw)
            mem = {}
            (a, am, ac), (b, bm, bc) = operands(ex, (ka, kb), ('a', 'b'), mem)
            fn = ex.get_fn(sess.db.find_in_file(file, item, argrx))
            args = [a, b]
            if kind in ('ordering', 'bool'):
                mem[('h', 'ra')] = a
                mem[('h', 'rb')] = b
                args = [Ref(('h', 'ra')), Ref(('h', 'rb'))]
            p0 = Path(ac + bc)
            outs = ex.run(fn, args, p0, mem=mem)
            ob.paths = len(outs)
            A, B = math_val(ex, am, ka), math_val(ex, bm, kb)
            lemmas = list(ex.extra_lemmas)
            if opname in ('left_shift', 'right_shift'):
                lemmas += pow2_lemmas(B)
                # physical bound: no BigInt operand has 2^64 or more bits (it could not be stored)
                lemmas.append(z3.Implies(B >= (1 << 64), z3.And(A < POW2(B), -A <= POW2(B))))
                ob.bounds += '; operands have fewer than 2^64 bits'
            ok_models = 0
            for v, p, m in outs:
                ex.cur_mem = m
                conds = list(p.conds)
                if kind == 'result':
                    if isinstance(v, Enum) and v.variant == 'Err':
                        viol = z3.Not(errcond(A, B))
                    else:
                        val, canon, _ = result_value(ex, m, v.fields[0])
                        viol = z3.Or(val != oracle(A, B), z3.Not(canon), errcond(A, B))
                elif kind == 'int':
                    val, canon, _ = result_value(ex, m, v)
                    viol = z3.Or(val != oracle(A, B), z3.Not(canon))
                elif kind == 'ordering':
                    from mirsym.contracts import ordering_term
                    viol = ordering_term(v) != oracle(A, B)
                elif kind == 'bool':
                    viol = v != oracle(A, B)
                r, model = sess.decide(ob, conds + [viol], lemmas)
                if r == 'sat':
                    wa, wb = witness_ints(model, ex, (am, bm), (ka, kb))
                    ob.fail({'kind': 'int_binop', 'op': pyop, 'a': str(wa), 'b': str(wb), 'reps': [ka, kb],
                             'path_result': v.variant if isinstance(v, Enum) else 'value'})
                elif r == 'unknown':
                    ob.inconclusive(f'solver unknown on a result path: {model}')
            # panic edges
            for pn in ex.panics:
                sess.panic_edges_checked += 1
                r, model = sess.decide(ob, pn.conds, lemmas)
                if r == 'sat':
                    wa, wb = witness_ints(model, ex, (am, bm), (ka, kb))
                    ob.fail({'kind': 'int_binop', 'op': pyop, 'a': str(wa), 'b': str(wb), 'reps': [ka, kb], 'panic': pn.msg, 'in': pn.fn[-80:]})
                elif r == 'unknown':
                    ob.inconclusive(f'solver unknown on panic edge {pn.msg}')
            # designated paths / vacuity (only meaningful for small,small)
            if ka == 'small' and kb == 'small' and intmode:
                for name, cond in DESIGNATED.get(opname, []):
                    feas = False
                    for v, p, m in outs:
                        r, _ = sess.decide(ob, list(p.conds) + [cond(A, B)], lemmas)
                        if r == 'sat':
                            feas = True
                            break
                    ob.designated[name] = feas
                    if not feas:
                        ob.inconclusive(f'designated case "{name}" reaches no return path (vacuity)')
            # vacuity twin: some input reaches a return path at all, with a wrong value asserted -> sat
            if outs:
                v, p, m = outs[0]
                r, model = sess.decide(ob, list(p.conds), lemmas)
                ob.twin = r
                if r != 'sat':
                    ob.inconclusive('vacuity twin not satisfiable')
                else:
                    wa, wb = witness_ints(model, ex, (am, bm), (ka, kb))
                    ob.sample = {'a': str(wa), 'b': str(wb), 'op': pyop}
            else:
                ob.inconclusive('no return path (vacuous)')
            sess.absorb(ex)
        except Unsupported as e:
            ob.inconclusive(f'unsupported MIR: {e}')
        except LookupError as e:
            ob.inconclusive(f'function not found: {e}')
        ob.wall_s = time.time() - t1
        obs.append(sess.add(ob))
    return obs


def check_unop(sess, opname):
    file, item, argrx, mode, kind, oracle, pyop = UNOPS[opname]
    obs = []
    for ka in ('small', 'big'):
        t1 = time.time()
        ob = Obligation(f'C10.{opname}[{ka}]', f'`{opname}` on {ka} is exact / canonical', 'integer mode: no magnitude bound')
        try:
            ex = sess.executor(True)
            mem = {}
            (a, am, ac), = operands(ex, (ka,), ('a',), mem)
            fn = ex.get_fn(sess.db.find_in_file(file, item, argrx))
            outs = ex.run(fn, [a], Path(ac), mem=mem)
            ob.paths = len(outs)
            lemmas = list(ex.extra_lemmas)
            for v, p, m in outs:
                ex.cur_mem = m
                if kind == 'int':
                    val, canon, _ = result_value(ex, m, v)
                    viol = z3.Or(val != oracle(am), z3.Not(canon))
                elif kind == 'bool':
                    viol = v != oracle(am)
                elif kind == 'opt32':
                    fits = in_range(am, 32, True)
                    viol = z3.Not(fits) if v.variant == 'Some' else fits
                    if v.variant == 'Some':
                        viol = z3.Or(viol, v.fields[0] != am)
                elif kind == 'optu64':
                    fits = in_range(am, 64, False)
                    viol = z3.Not(fits) if v.variant == 'Some' else fits
                    if v.variant == 'Some':
                        viol = z3.Or(viol, v.fields[0] != am)
                r, model = sess.decide(ob, list(p.conds) + [viol], lemmas)
                if r == 'sat':
                    ob.fail({'kind': 'int_unop', 'op': pyop or opname, 'a': str(model_int(model, am)), 'reps': [ka]})
                elif r == 'unknown':
                    ob.inconclusive(f'solver unknown: {model}')
            for pn in ex.panics:
                sess.panic_edges_checked += 1
                r, model = sess.decide(ob, pn.conds, lemmas)
                if r == 'sat':
                    ob.fail({'kind': 'int_unop', 'op': pyop or opname, 'a': str(model_int(model, am)), 'reps': [ka], 'panic': pn.msg})
                elif r == 'unknown':
                    ob.inconclusive('solver unknown on panic edge')
            if outs:
                r, model = sess.decide(ob, list(outs[0][1].conds), lemmas)
                ob.twin = r
                if r == 'sat':
                    ob.sample = {'a': str(model_int(model, am)), 'op': opname}
                else:
                    ob.inconclusive('vacuity twin not satisfiable')
            else:
                ob.inconclusive('no return path')
            sess.absorb(ex)
        except Unsupported as e:
            ob.inconclusive(f'unsupported MIR: {e}')
        except LookupError as e:
            ob.inconclusive(f'function not found: {e}')
        ob.wall_s = time.time() - t1
        obs.append(sess.add(ob))
    return obs


def check_mul_i32(sess):
    """StarlarkIntRef * i32 and i32 * StarlarkIntRef (used by sequence repetition)"""
    obs = []
    for order in ('ref*i32', 'i32*ref'):
        for ka in ('small', 'big'):
            t1 = time.time()
            ob = Obligation(f'C10.mul_i32[{order},{ka}]', f'{order} is exact / canonical', 'integer mode: no magnitude bound')
            try:
                ex = sess.executor(True)
                mem = {}
                (a, am, ac), = operands(ex, (ka,), ('a',), mem)
                k = z3.Int('k')
                kc = [k >= I32_MIN, k <= I32_MAX]
                if order == 'ref*i32':
                    fn = ex.get_fn(sess.db.find_in_file('int_or_big.rs', 'mul', r'_1: StarlarkIntRef<.*_2: i32\)'))
                    args = [a, k]
                else:
                    fn = ex.get_fn(sess.db.find_in_file('int_or_big.rs', 'mul', r'_1: i32, _2: StarlarkIntRef<'))
                    args = [k, a]
                outs = ex.run(fn, args, Path(ac + kc), mem=mem)
                ob.paths = len(outs)
                for v, p, m in outs:
                    val, canon, _ = result_value(ex, m, v)
                    r, model = sess.decide(ob, list(p.conds) + [z3.Or(val != am * k, z3.Not(canon))])
                    if r == 'sat':
                        ob.fail({'kind': 'int_binop', 'op': '*', 'a': str(model_int(model, am)), 'b': str(model_int(model, k)), 'reps': [ka, 'small']})
                    elif r == 'unknown':
                        ob.inconclusive(f'solver unknown: {model}')
                for pn in ex.panics:
                    sess.panic_edges_checked += 1
                    r, model = sess.decide(ob, pn.conds)
                    if r != 'unsat':
                        ob.fail({'kind': 'int_binop', 'op': '*', 'a': str(model_int(model, am)), 'b': str(model_int(model, k)), 'panic': pn.msg}) if r == 'sat' else ob.inconclusive('unknown panic edge')
                if not outs:
                    ob.inconclusive('no return path')
                sess.absorb(ex)
            except (Unsupported, LookupError) as e:
                ob.inconclusive(f'unsupported: {e}')
            ob.wall_s = time.time() - t1
            obs.append(sess.add(ob))
    return obs


def check_from(sess):
    """From<iN/uN> and From<BigInt> for StarlarkInt preserve the value and canonicalise."""
    obs = []
    for ty in ('i32', 'u32', 'i64', 'u64', 'isize', 'usize', 'BigInt'):
        t1 = time.time()
        ob = Obligation(f'C10.from[{ty}]', f'StarlarkInt::from({ty}) preserves every value, canonical representation', f'every {ty} value')
        try:
            ex = sess.executor(True)
            x = z3.Int('x')
            if ty == 'BigInt':
                arg, conds = Big(x), []
                rx = r'_1: num_bigint::BigInt\) -> StarlarkInt'
            else:
                w, sg = INT_TY[ty]
                arg, conds = x, [in_range(x, w, sg)]
                rx = rf'_1: {ty}\) -> StarlarkInt'
            fn = ex.get_fn(sess.db.find_in_file('int_or_big.rs', 'from', rx))
            outs = ex.run(fn, [arg], Path(conds))
            ob.paths = len(outs)
            kinds = set()
            for v, p, m in outs:
                val, canon, k = result_value(ex, m, v)
                kinds.add(k)
                r, model = sess.decide(ob, list(p.conds) + [z3.Or(val != x, z3.Not(canon))])
                if r == 'sat':
                    ob.fail({'kind': 'int_from', 'ty': ty, 'x': str(model_int(model, x))})
                elif r == 'unknown':
                    ob.inconclusive(f'solver unknown: {model}')
            for pn in ex.panics:
                sess.panic_edges_checked += 1
                r, model = sess.decide(ob, pn.conds)
                if r == 'sat':
                    ob.fail({'kind': 'int_from', 'ty': ty, 'x': str(model_int(model, x)), 'panic': pn.msg})
                elif r == 'unknown':
                    ob.inconclusive('unknown panic edge')
            ob.designated = {'Small result': 'Small' in kinds, 'Big result': 'Big' in kinds or ty == 'i32'}
            if not all(ob.designated.values()):
                ob.inconclusive('a representation is never produced (vacuity)')
            sess.absorb(ex)
        except (Unsupported, LookupError) as e:
            ob.inconclusive(f'unsupported: {e}')
        ob.wall_s = time.time() - t1
        obs.append(sess.add(ob))
    return obs


def check_inline_try_from(sess):
    """InlineInt::try_from(T) is Ok(v) iff v fits i32, and then holds v."""
    obs = []
    for ty in ('i32', 'u32', 'i64', 'u64', 'isize', 'usize', '&BigInt'):
        t1 = time.time()
        ob = Obligation(f'C10.inline_try_from[{ty}]', f'InlineInt::try_from({ty}) = Ok(v) iff v in i32', f'every {ty} value')
        try:
            ex = sess.executor(True)
            x = z3.Int('x')
            mem = {}
            if ty == '&BigInt':
                mem[('h', 'b')] = Big(x)
                arg, conds = Ref(('h', 'b')), []
                rx = r"_1: &(?:'\w+ )?num_bigint::BigInt\)"
            else:
                w, sg = INT_TY[ty]
                arg, conds = x, [in_range(x, w, sg)]
                rx = rf'_1: {ty}\)'
            fn = ex.get_fn(sess.db.find_in_file('inline_int.rs', 'try_from', rx))
            outs = ex.run(fn, [arg], Path(conds), mem=mem)
            ob.paths = len(outs)
            fits = in_range(x, 32, True)
            for v, p, m in outs:
                if v.variant == 'Ok':
                    pay = v.fields[0]
                    while isinstance(pay, Struct):
                        pay = pay.fields[0]
                    viol = z3.Or(z3.Not(fits), pay != x)
                else:
                    viol = fits
                r, model = sess.decide(ob, list(p.conds) + [viol])
                if r == 'sat':
                    ob.fail({'kind': 'int_from', 'ty': ty, 'x': str(model_int(model, x)), 'via': 'InlineInt::try_from'})
                elif r == 'unknown':
                    ob.inconclusive(f'solver unknown: {model}')
            for pn in ex.panics:
                sess.panic_edges_checked += 1
                r, model = sess.decide(ob, pn.conds)
                if r == 'sat':
                    ob.fail({'kind': 'int_from', 'ty': ty, 'x': str(model_int(model, x)), 'panic': pn.msg})
            if len(outs) < 2 and ty != 'i32':
                ob.inconclusive('Ok and Err paths not both present (vacuity)')
            sess.absorb(ex)
        except (Unsupported, LookupError) as e:
            ob.inconclusive(f'unsupported: {e}')
        ob.wall_s = time.time() - t1
        obs.append(sess.add(ob))
    return obs


def check_cmp_small_big(sess):
    obs = []
    t1 = time.time()
    ob = Obligation('C10.cmp_small_big', 'StarlarkBigInt::cmp_small_big / cmp_big_small agree with integer order', 'integer mode: no magnitude bound')
    try:
        from mirsym.contracts import ordering_term
        for item, flip in (('cmp_small_big', False), ('cmp_big_small', True)):
            ex = sess.executor(True)
            mem = {}
            x = z3.Int('x')
            n = z3.Int('n')
            mem[('h', 'n')] = Struct([Big(n)], 'StarlarkBigInt')
            conds = [in_range(x, 32, True), z3.Or(n < I32_MIN, n > I32_MAX)]
            fn = ex.get_fn(sess.db.find_in_file('bigint.rs', item))
            args = [Ref(('h', 'n')), x] if flip else [x, Ref(('h', 'n'))]
            outs = ex.run(fn, args, Path(conds), mem=mem)
            ob.paths += len(outs)
            want = cmp_term(n, x) if flip else cmp_term(x, n)
            for v, p, m in outs:
                r, model = sess.decide(ob, list(p.conds) + [ordering_term(v) != want])
                if r == 'sat':
                    a, b = (model_int(model, n), model_int(model, x)) if flip else (model_int(model, x), model_int(model, n))
                    ob.fail({'kind': 'int_binop', 'op': 'cmp', 'a': str(a), 'b': str(b)})
                elif r == 'unknown':
                    ob.inconclusive(f'solver unknown: {model}')
            sess.absorb(ex)
    except (Unsupported, LookupError) as e:
        ob.inconclusive(f'unsupported: {e}')
    ob.wall_s = time.time() - t1
    obs.append(sess.add(ob))
    return obs


def check_floats(sess):
    """int <-> float conversions (bit-vector mode): to_f64 and from_f64_exact"""
    from mirsym.contracts import F64
    obs = []
    bigw = 128
    for ka in ('small', 'big'):
        t1 = time.time()
        ob = Obligation(f'C10.to_f64[{ka}]', 'int -> float conversion rounds the exact value to nearest-even (exact for inline ints)', f'every i32; big ints with |n| < 2^{bigw - 2}')
        try:
            ex = sess.executor(False, bigw=bigw)
            mem = {}
            (a, am, ac), = operands(ex, (ka,), ('a',), mem)
            fn = ex.get_fn(sess.db.find_in_file('int_or_big.rs', 'to_f64', r'_1: StarlarkIntRef<'))
            outs = ex.run(fn, [a], Path(ac), mem=mem)
            ob.paths = len(outs)
            want = z3.fpSignedToFP(z3.RNE(), am, F64)
            for v, p, m in outs:
                r, model = sess.decide(ob, list(p.conds) + [z3.Not(v == want)], ex.extra_lemmas)
                if r == 'sat':
                    ob.fail({'kind': 'int_to_float', 'a': str(model_signed(model, am)), 'reps': [ka]})
                elif r == 'unknown':
                    ob.inconclusive(f'solver unknown: {model}')
            for pn in ex.panics:
                sess.panic_edges_checked += 1
                r, model = sess.decide(ob, pn.conds, ex.extra_lemmas)
                if r == 'sat':
                    ob.fail({'kind': 'int_to_float', 'a': str(model_signed(model, am)), 'reps': [ka], 'panic': pn.msg})
                elif r == 'unknown':
                    ob.inconclusive('unknown panic edge')
            ob.twin = 'sat' if outs else 'unsat'
            if not outs:
                ob.inconclusive('no return path')
            sess.absorb(ex)
        except (Unsupported, LookupError) as e:
            ob.inconclusive(f'unsupported: {e}')
        ob.wall_s = time.time() - t1
        obs.append(sess.add(ob))
    t1 = time.time()
    ob = Obligation('C10.from_f64_exact', 'float -> int conversion succeeds exactly for finite integral floats and yields exactly that value in canonical representation; fails otherwise',
                    f'every f64 bit pattern with |f| < 2^{bigw - 2} (larger magnitudes: outside the claim), NaN and infinities')
    try:
        ex = sess.executor(False, bigw=bigw)
        prev = sess.decider.logic
        sess.decider.logic = 'QF_FPBV'
        f = z3.FP('f', F64)
        fn = ex.get_fn(sess.db.find_in_file('int_or_big.rs', 'from_f64_exact'))
        outs = ex.run(fn, [f], Path([]))
        ob.paths = len(outs)
        finite = z3.Not(z3.Or(z3.fpIsNaN(f), z3.fpIsInf(f)))
        integral = z3.fpEQ(z3.fpRoundToIntegral(z3.RTZ(), f), f)
        lim = z3.FPVal(float(1 << (bigw - 2)), F64)
        inb = z3.Or(z3.Not(finite), z3.fpLT(z3.fpAbs(f), lim))
        exact_val = z3.fpToSBV(z3.RTZ(), f, z3.BitVecSort(bigw))
        kinds = set()
        for v, p, m in outs:
            if v.variant == 'Ok':
                val, canon, k = result_value(ex, m, v.fields[0])
                kinds.add(k)
                viol = z3.Or(z3.Not(finite), z3.Not(integral), val != exact_val, z3.Not(canon))
            else:
                kinds.add('Err')
                viol = z3.And(finite, integral)
            r, model = sess.decide(ob, list(p.conds) + [inb, viol], ex.extra_lemmas)
            if r == 'sat':
                from .common import model_f64_bits
                ob.fail({'kind': 'float_to_int', 'bits': '0x%016x' % model_f64_bits(model, f), 'result': v.variant})
            elif r == 'unknown':
                ob.inconclusive(f'solver unknown: {model}')
        for pn in ex.panics:
            sess.panic_edges_checked += 1
            r, model = sess.decide(ob, pn.conds + [inb], ex.extra_lemmas)
            if r == 'sat':
                from .common import model_f64_bits
                ob.fail({'kind': 'float_to_int', 'bits': '0x%016x' % model_f64_bits(model, f), 'panic': pn.msg})
            elif r == 'unknown':
                ob.inconclusive('unknown panic edge')
        ob.designated = {'Small result': 'Small' in kinds, 'Big result': 'Big' in kinds, 'error': 'Err' in kinds}
        for k, okk in ob.designated.items():
            if not okk:
                ob.inconclusive(f'designated path "{k}" missing (vacuity)')
        ob.twin = 'sat'
        sess.decider.logic = prev
        sess.absorb(ex)
    except (Unsupported, LookupError) as e:
        ob.inconclusive(f'unsupported: {e}')
    ob.wall_s = time.time() - t1
    obs.append(sess.add(ob))
    return obs


# ----------------------------------------------------------------------------- StarlarkValue-level operator methods
def c_ptr_get(ex, st, args, path, callee):
    from mirsym.contracts import d
    return [('ret', d(ex, args[0]), path)]


def c_unpack_num(ex, st, args, path, callee):
    from mirsym.contracts import SOME
    v = args[0]
    if isinstance(v, Struct) and v.ty == 'ValueNum':
        return [('ret', SOME(v.fields[0]), path)]
    raise Unsupported(f'unpack_num of {v}')


def c_unpack_int(ex, st, args, path, callee):
    from mirsym.contracts import SOME, NONE
    v = args[0]
    if isinstance(v, Struct) and v.ty == 'ValueNum':
        n = v.fields[0]
        return [('ret', SOME(n.fields[0]) if n.variant == 'Int' else NONE(), path)]
    raise Unsupported(f'StarlarkIntRef::unpack of {v}')


def c_alloc_wrap(ex, st, args, path, callee):
    return [('ret', Struct([args[-1]], 'ValueOf'), path)]


VALUE_EXTRA = [
    ('PointerI32::get = the tagged pointer is the int (receiver plumbing)', r'^(pointer_i32::)?PointerI32::get$', c_ptr_get),
    ('Value::unpack_num = the other operand\'s NumRef (receiver plumbing)', r'Value::<.*>::unpack_num$', c_unpack_num),
    ('StarlarkIntRef::unpack(Value) = the other operand\'s int (receiver plumbing)', r'StarlarkIntRef::<.*>::unpack(_value_opt)?$|^<StarlarkIntRef<.*> as UnpackValue<.*>>::unpack_value_opt$', c_unpack_int),
    ('Heap::alloc(StarlarkInt | Num) = the value itself (allocation is outside the claim)', r'Heap::<.*>::alloc::<(StarlarkInt|Num|values::types::num::value::Num|int_or_big::StarlarkInt)>$', c_alloc_wrap),
    ('Value::new_int(InlineInt) = the inline int', r'Value::<.*>::new_int$', c_alloc_wrap),
]

VALUE_OPS = {
    # method: (mode, oracle, error condition, python op)
    'add': ('int', lambda a, b: a + b, None, '+'), 'sub': ('int', lambda a, b: a - b, None, '-'), 'mul': ('int', lambda a, b: a * b, None, '*'),
    'floor_div': ('int', fdiv, lambda a, b: b == 0, '//'), 'percent': ('int', fmod, lambda a, b: b == 0, '%'),
    'left_shift': ('int', shl_oracle, lambda a, b: z3.Or(b < 0, z3.And(a != 0, b > SHIFT_LIMIT)), '<<'),
    'right_shift': ('int', shr_oracle, lambda a, b: b < 0, '>>'),
    'bit_and': ('bv', lambda a, b: a & b, None, '&'), 'bit_or': ('bv', lambda a, b: a | b, None, '|'), 'bit_xor': ('bv', lambda a, b: a ^ b, None, '^'),
}
VALUE_UNOPS = {'minus': ('int', lambda a: -a, 'neg'), 'plus': ('int', lambda a: a, None), 'bit_not': ('int', lambda a: -a - 1, 'not')}
VFILE = {'small': ('pointer_i32.rs', r'_1: &PointerI32'), 'big': ('bigint.rs', r'_1: &StarlarkBigInt')}


def unwrap_value(ex, m, v):
    """Value produced by the method -> StarlarkInt"""
    v = ex.deref(m, v)
    while isinstance(v, Struct) and v.ty == 'ValueOf':
        v = ex.deref(m, v.fields[0])
    if isinstance(v, Enum) and v.ty == 'Num' and v.variant == 'Int':
        v = ex.deref(m, v.fields[0])
    if z3.is_expr(v):          # Value::new_int(InlineInt)
        return Enum('Small', [v], 'StarlarkInt')
    return v


def check_value_ops(sess):
    """the operator methods of the two int StarlarkValue impls (the dispatch sites the interpreter really calls)"""
    obs = []
    for meth, (mode, oracle, errcond, pyop) in VALUE_OPS.items():
        for ka, kb in itertools.product(('small', 'big'), repeat=2):
            t1 = time.time()
            intmode = mode == 'int'
            bigw = 128 if sess.tier == 'quick' else 256
            ob = Obligation(f'C10.value_method.{meth}[{ka},{kb}]', f'`{pyop}` as dispatched from the {ka} int value with a {kb} int operand: exact result or documented error, canonical representation',
                            'integer mode: no magnitude bound' if intmode else f'bit-vector mode: |big| < 2^{bigw - 2}')
            try:
                ex = sess.executor(intmode, bigw=bigw, extra=VALUE_EXTRA)
                mem = {}
                (a, am, ac), (b, bm, bc) = operands(ex, (ka, kb), ('a', 'b'), mem)
                file, rx = VFILE[ka]
                fn = ex.get_fn(sess.db.find_in_file(file, meth, rx))
                if ka == 'small':
                    mem[('h', 'self')] = am
                    recv = Ref(('h', 'self'))
                else:
                    recv = Ref(('h', 'a'))
                other = Struct([Enum('Int', [b], 'NumRef')], 'ValueNum')
                outs = ex.run(fn, [recv, other, Opaque('heap')], Path(ac + bc), mem=mem)
                ob.paths = len(outs)
                A, B = math_val(ex, am, ka), math_val(ex, bm, kb)
                lemmas = list(ex.extra_lemmas)
                if meth in ('left_shift', 'right_shift'):
                    lemmas += pow2_lemmas(B)
                    lemmas.append(z3.Implies(B >= (1 << 64), z3.And(A < POW2(B), -A <= POW2(B))))
                for v, p, m in outs:
                    ex.cur_mem = m
                    if isinstance(v, Enum) and v.variant == 'Some':     # Option<Result<Value>>
                        v = v.fields[0]
                    if isinstance(v, Enum) and v.variant == 'None':
                        viol = z3.BoolVal(True)                         # "unsupported" for two ints is wrong
                    elif v.variant == 'Err':
                        viol = z3.Not(errcond(A, B)) if errcond else z3.BoolVal(True)
                    else:
                        val, canon, _ = result_value(ex, m, unwrap_value(ex, m, v.fields[0]))
                        viol = z3.Or(val != oracle(A, B), z3.Not(canon))
                        if errcond:
                            viol = z3.Or(viol, errcond(A, B))
                    r, model = sess.decide(ob, list(p.conds) + [viol], lemmas)
                    if r == 'sat':
                        wa, wb = witness_ints(model, ex, (am, bm), (ka, kb))
                        ob.fail({'kind': 'int_binop', 'op': pyop, 'a': str(wa), 'b': str(wb), 'reps': [ka, kb], 'via': f'{file}::{meth}'})
                    elif r == 'unknown':
                        ob.inconclusive(f'solver unknown: {model}')
                for pn in ex.panics:
                    sess.panic_edges_checked += 1
                    r, model = sess.decide(ob, pn.conds, lemmas)
                    if r == 'sat':
                        wa, wb = witness_ints(model, ex, (am, bm), (ka, kb))
                        ob.fail({'kind': 'int_binop', 'op': pyop, 'a': str(wa), 'b': str(wb), 'reps': [ka, kb], 'panic': pn.msg, 'in': pn.fn[-80:]})
                    elif r == 'unknown':
                        ob.inconclusive('solver unknown on a panic edge')
                ob.twin = 'sat' if outs else 'unsat'
                if not outs:
                    ob.inconclusive('no return path')
                sess.absorb(ex)
            except Unsupported as e:
                ob.inconclusive(f'unsupported MIR: {e}')
            except LookupError as e:
                ob.inconclusive(f'function not found: {e}')
            ob.wall_s = time.time() - t1
            obs.append(sess.add(ob))
    for meth, (mode, oracle, pyop) in VALUE_UNOPS.items():
        for ka in ('small', 'big'):
            t1 = time.time()
            ob = Obligation(f'C10.value_method.{meth}[{ka}]', f'unary `{meth}` as dispatched from the {ka} int value', 'integer mode: no magnitude bound')
            try:
                ex = sess.executor(True, extra=VALUE_EXTRA)
                mem = {}
                (a, am, ac), = operands(ex, (ka,), ('a',), mem)
                file, rx = VFILE[ka]
                fn = ex.get_fn(sess.db.find_in_file(file, meth, rx))
                if ka == 'small':
                    mem[('h', 'self')] = am
                    recv = Ref(('h', 'self'))
                else:
                    recv = Ref(('h', 'a'))
                outs = ex.run(fn, [recv, Opaque('heap')], Path(ac), mem=mem)
                ob.paths = len(outs)
                for v, p, m in outs:
                    ex.cur_mem = m
                    if v.variant != 'Ok':
                        viol = z3.BoolVal(True)
                    else:
                        val, canon, _ = result_value(ex, m, unwrap_value(ex, m, v.fields[0]))
                        viol = z3.Or(val != oracle(am), z3.Not(canon))
                    r, model = sess.decide(ob, list(p.conds) + [viol])
                    if r == 'sat':
                        ob.fail({'kind': 'int_unop', 'op': pyop or meth, 'a': str(model_int(model, am)), 'reps': [ka]})
                    elif r == 'unknown':
                        ob.inconclusive('solver unknown')
                for pn in ex.panics:
                    sess.panic_edges_checked += 1
                    r, model = sess.decide(ob, pn.conds)
                    if r == 'sat':
                        ob.fail({'kind': 'int_unop', 'op': pyop or meth, 'a': str(model_int(model, am)), 'reps': [ka], 'panic': pn.msg})
                ob.twin = 'sat' if outs else 'unsat'
                if not outs:
                    ob.inconclusive('no return path')
                sess.absorb(ex)
            except (Unsupported, LookupError) as e:
                ob.inconclusive(f'unsupported: {e}')
            ob.wall_s = time.time() - t1
            obs.append(sess.add(ob))
    return obs


def check_unpack_i32(sess):
    """conversion of an int argument to the host's i32 (`impl UnpackValue for i32`, used by most builtins)"""
    from mirsym.contracts import SOME, NONE
    obs = []

    def c_unpack_i32_fast(ex, st, args, path, callee):
        v = args[0]
        if isinstance(v, Struct) and v.ty == 'ValueNum':
            n = v.fields[0]
            if n.variant == 'Int' and n.fields[0].variant == 'Small':
                return [('ret', SOME(n.fields[0].fields[0]), path)]
        return [('ret', NONE(), path)]

    def c_to_string(ex, st, args, path, callee):
        return [('ret', Opaque('string'), path)]
    extra = VALUE_EXTRA + [('Value::unpack_i32 = the operand if it is an inline int (receiver plumbing)', r'Value::<.*>::unpack_i32$', c_unpack_i32_fast),
                           ('ToString::to_string (error message text) = opaque', r' as (std::string::)?ToString>::to_string$', c_to_string),
                           ('any::type_name = opaque', r'any::type_name::<', c_to_string)]
    for ka in ('small', 'big', 'other'):
        t1 = time.time()
        ob = Obligation(f'C10.unpack_i32[{ka}]', 'an int argument converts to i32 exactly when it fits (then to the same value); a big int is a clean "too big" error; a non-int is not an int',
                        'integer mode: no magnitude bound')
        try:
            ex = sess.executor(True, extra=extra)
            mem = {}
            if ka == 'other':
                val = Struct([Enum('Float', [Opaque('f')], 'NumRef')], 'ValueNum')
                am, ac = None, []
            else:
                (a, am, ac), = operands(ex, (ka,), ('a',), mem)
                val = Struct([Enum('Int', [a], 'NumRef')], 'ValueNum')
            fn = ex.get_fn(sess.db.find_in_file('int/i32.rs', 'unpack_value_impl'))
            outs = ex.run(fn, [val], Path(ac), mem=mem)
            ob.paths = len(outs)
            for v, p, m in outs:
                if ka == 'other':
                    bad = not (v.variant == 'Ok' and v.fields[0].variant == 'None')
                    if bad:
                        ob.fail({'kind': 'unpack_i32', 'x': 'non-int', 'result': str(v)[:60]})
                    continue
                if v.variant == 'Ok':
                    o = v.fields[0]
                    viol = z3.BoolVal(True) if o.variant == 'None' else z3.Or(z3.Not(in_range(am, 32, True)), o.fields[0] != am)
                else:
                    viol = in_range(am, 32, True)
                r, model = sess.decide(ob, list(p.conds) + [viol], ex.extra_lemmas)
                if r == 'sat':
                    ob.fail({'kind': 'unpack_i32', 'x': str(model_int(model, am)), 'reps': [ka]})
                elif r == 'unknown':
                    ob.inconclusive(f'solver unknown: {model}')
            for pn in ex.panics:
                sess.panic_edges_checked += 1
                r, model = sess.decide(ob, pn.conds, ex.extra_lemmas)
                if r == 'sat':
                    ob.fail({'kind': 'unpack_i32', 'x': str(model_int(model, am)) if am is not None else 'non-int', 'panic': pn.msg})
            ob.twin = 'sat' if outs else 'unsat'
            if not outs:
                ob.inconclusive('no return path')
            sess.absorb(ex)
        except (Unsupported, LookupError) as e:
            ob.inconclusive(f'unsupported: {e}')
        ob.wall_s = time.time() - t1
        obs.append(sess.add(ob))
    return obs


def run(sess):
    for op in ('add', 'sub', 'mul', 'floor_div', 'percent', 'left_shift', 'right_shift', 'bitand', 'bitor', 'bitxor', 'cmp', 'eq'):
        check_binop(sess, op)
    for op in UNOPS:
        check_unop(sess, op)
    check_mul_i32(sess)
    check_from(sess)
    check_inline_try_from(sess)
    check_cmp_small_big(sess)
    check_floats(sess)
    check_value_ops(sess)
    check_unpack_i32(sess)


# ----------------------------------------------------------------------------- interface for ./check
CRATES = ('starlark',)
META = {
    'explanation': 'C10: each integer operator (int/int_or_big.rs, int/inline_int.rs, bigint.rs) is executed symbolically from the MIR '
                   'emitted from the working tree, for every representation combination (inline i32 / big), and compared with Python '
                   'integer semantics; the invariant "Big is outside i32" is assumed on inputs and asserted on results (inductive step).',
    'bounds': 'no loops in the encoded code; integer mode has no magnitude bound (+ - * // % neg abs cmp shifts conversions); '
              '& | ^ in bit-vector mode with |n| < 2^126 (quick) / 2^254 (thorough); shift operands assumed to have < 2^64 bits',
    'outside': 'literal parsing, int(str, base), formatting, UnpackValue for host types, equality of compile-time folding and run-time '
               'execution (both call these functions; exercised by the replay only), num-bigint itself, heap allocation of results',
    'assumptions': ['num_bigint::BigInt operations are the mathematical functions named in trusted_base',
                    'nightly MIR (opt-level 2, no inlining, overflow checks on, debug assertions off) has the semantics of the shipped build',
                    'the MIR executor and contract list are correct (validated every run against the native build on a boundary grid)'],
}


def replay_witness(w, rp):
    from . import replay as R
    kind = w['kind']
    cases, expects, descr = [], [], ''
    if kind == 'int_binop':
        a, b, op = int(w['a']), int(w['b']), w['op']
        exp = R.py_binop(op, a, b)
        cases = [{'kind': 'eval', 'program': R.binop_program(op, R.lit(a), R.lit(b))},
                 {'kind': 'eval', 'program': R.binop_program(op, 'a', 'b'), 'vars': {'a': {'int': str(a)}, 'b': {'int': str(b)}}}]
        expects = [exp, exp]
        descr = f'{a} {op} {b} expected {exp}'
        role = f'int {op}'
    elif kind == 'int_unop':
        a, op = int(w['a']), w['op']
        if op not in ('neg', 'not', 'abs'):
            return {'reproduced': False, 'detail': f'no public-API replay for {op}', 'role': f'int {op}'}
        exp, prog = R.py_unop(op, a)
        cases = [{'kind': 'eval', 'program': prog(R.lit(a))}, {'kind': 'eval', 'program': prog('a'), 'vars': {'a': {'int': str(a)}}}]
        expects = [exp, exp]
        descr = f'{op}({a}) expected {exp}'
        role = f'int {op}'
    elif kind == 'int_from':
        x = int(w['x'])
        cases = [{'kind': 'eval', 'program': 'a', 'vars': {'a': {'int': str(x)}}}, {'kind': 'eval', 'program': 'a + 0', 'vars': {'a': {'int': str(x)}}}]
        expects = [('ok', str(x))] * 2
        descr = f'host integer {x} round trip'
        role = f'int from {w.get("ty")}'
    elif kind == 'unpack_i32':
        if w['x'] == 'non-int':
            return {'reproduced': False, 'detail': 'no replay for non-int operands', 'role': 'int to host i32'}
        x = int(w['x'])
        fits = I32_MIN <= x <= I32_MAX
        cases = [{'kind': 'eval', 'program': 'len("ab" * x) if x < 1000 else 0', 'vars': {'x': {'int': str(x)}}},
                 {'kind': 'eval', 'program': '[10, 20, 30][x]', 'vars': {'x': {'int': str(x)}}},
                 {'kind': 'eval', 'program': 'list(enumerate(["a"], x))', 'vars': {'x': {'int': str(x)}}}]
        if fits:
            try:
                e2 = ('ok', str([10, 20, 30][x]))
            except IndexError:
                e2 = ('err', 'index')
            expects = [('ok', str(len("ab" * x) if x < 1000 else 0)), e2, ('ok', str([(x, "a")]).replace("'", '"'))]
        else:
            expects = [('err', 'too big')] * 3
        descr = f'int argument {x} converted to i32'
        role = 'int to host i32'
    elif kind == 'int_to_float':
        import struct
        a = int(w['a'])
        try:
            bits = struct.unpack('<Q', struct.pack('<d', float(a)))[0]
        except OverflowError:
            return {'reproduced': False, 'detail': 'float(a) overflows in Python', 'role': 'int to float'}
        cases = [{'kind': 'eval', 'program': 'float(a) == y', 'vars': {'a': {'int': str(a)}, 'y': {'float_bits': '0x%016x' % bits}}}]
        expects = [('ok', 'True')]
        descr = f'float({a})'
        role = 'int to float'
    elif kind == 'float_to_int':
        import math
        import struct
        f = struct.unpack('<d', struct.pack('<Q', int(w['bits'], 16)))[0]
        cases = [{'kind': 'eval', 'program': 'int(y)', 'vars': {'y': {'float_bits': w['bits']}}}]
        if math.isnan(f) or math.isinf(f):
            expects = [('err', 'not finite')]
        else:
            expects = [('ok', str(int(f)))]
        descr = f'int({f!r})'
        role = 'float to int'
    else:
        return {'reproduced': False, 'detail': f'unknown witness kind {kind}', 'role': kind}
    got = {}
    repro = False
    for profile in ('dev', 'release'):
        res = rp.run(cases, profile)
        got[profile] = res
        for e, g in zip(expects, res):
            if not R.matches(e, g):
                repro = True
    return {'reproduced': repro, 'role': role, 'detail': f'{descr}; native: {json_short(got)}', 'cases': cases}


def json_short(x):
    import json
    s = json.dumps(x)
    return s if len(s) < 600 else s[:600] + '...'


GRID = [0, 1, -1, 2, -2, 7, -7, 31, 32, 33, 63, 64, 65536, 100000, 100001, I32_MAX, I32_MIN, I32_MAX + 1, I32_MIN - 1,
        1 << 32, (1 << 53) + 1, -(1 << 63), (1 << 64) - 1, 1 << 64, -(3 << 70)]


def validate(sess, rp):
    """push a boundary grid through the encoding (inputs fixed, solver asked for the output) and through the native build"""
    from . import replay as R
    mism = []
    n = 0
    cases, meta = [], []
    for opname in ('add', 'sub', 'mul', 'floor_div', 'percent', 'left_shift', 'right_shift', 'bitand', 'bitor', 'bitxor'):
        file, item, argrx, mode, kind, oracle, errcond, pyop = BINOPS[opname]
        intmode = (mode == 'int')
        for ka, kb in itertools.product(('small', 'big'), repeat=2):
            ex = sess.executor(intmode, bigw=128)
            mem = {}
            (a, am, ac), (b, bm, bc) = operands(ex, (ka, kb), ('a', 'b'), mem)
            fn = ex.get_fn(sess.db.find_in_file(file, item, argrx))
            try:
                outs = ex.run(fn, [a, b], Path(ac + bc), mem=mem)
            except Unsupported:
                continue
            s = z3.Solver()
            from .common import POW2_AXIOMS
            for ax in POW2_AXIOMS:
                s.add(ax)
            for lm in ex.extra_lemmas:
                s.add(lm)
            isk = lambda v, k: (I32_MIN <= v <= I32_MAX) == (k == 'small')
            for va in GRID:
                if not isk(va, ka):
                    continue
                for vb in GRID:
                    if not isk(vb, kb):
                        continue
                    if opname in ('left_shift', 'right_shift') and not (vb <= 64):
                        continue
                    if not intmode and (abs(va) >= 1 << 100 or abs(vb) >= 1 << 100):
                        continue
                    enc = None
                    for v, p, m in outs:
                        s.push()
                        for c in p.conds:
                            s.add(c)
                        if intmode:
                            s.add(am == va, bm == vb)
                        else:
                            s.add(am == z3.BitVecVal(va, am.size()), bm == z3.BitVecVal(vb, bm.size()))
                        if s.check() == z3.sat:
                            mdl = s.model()
                            if isinstance(v, Enum) and v.variant == 'Err':
                                enc = ('err', None)
                            else:
                                vv = v.fields[0] if (isinstance(v, Enum) and v.variant == 'Ok') else v
                                val, canon, _ = result_value(ex, m, vv)
                                r = mdl.eval(val, model_completion=True)
                                enc = ('ok', str(r.as_long() if intmode else r.as_signed_long()))
                            s.pop()
                            break
                        s.pop()
                    if enc is None:
                        mism.append(f'{opname}({va},{vb}): no feasible path in the encoding')
                        continue
                    cases.append({'kind': 'eval', 'program': R.binop_program(pyop, 'a', 'b'), 'vars': {'a': {'int': str(va)}, 'b': {'int': str(vb)}}})
                    meta.append((opname, va, vb, enc))
            sess.absorb(ex)
    res = rp.run(cases, 'dev')
    for (opname, va, vb, enc), g in zip(meta, res):
        n += 1
        if enc[0] == 'err':
            ok = 'err' in g
        else:
            ok = g.get('ok') == enc[1]
        if not ok:
            mism.append(f'{opname}({va},{vb}): encoding says {enc}, native build says {json_short(g)}')
    return n, mism
