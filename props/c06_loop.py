"""C06: the Pratt loop of `parse_expr` itself, executed symbolically from MIR over token streams whose operator tokens are
symbolic (solver-chosen) enum discriminants.  `parse_unary` (operand parsing), the token iterator and AST/span
construction are contracts; `parse_expr`, `peek`, `advance`, `consume`, `reject_chained_comparison`,
`infix_binding_power`, `is_comparison` and the derived `Token == Token` are the repository's code."""
import os
import time
import z3

from .common import Session, Obligation, Path, Enum, Struct, Ref, Opaque, Err, Slice, Unsupported, ret, OK, ERR, SOME, NONE, d, model_int
from .srcparse import enum_variants, struct_fields
from mirsym import exec as mexec
from mirsym.exec import SymEnum

LEXER = '/repo/starlark_syntax/src/lexer.rs'
AST = '/repo/starlark_syntax/src/syntax/ast.rs'
PARSER = '/repo/starlark_syntax/src/syntax/parser_rd.rs'
P = ('h', 'parser')
STREAM = ('h', 'stream')
CUR = ('h', 'cursor')


def contracts(toks):
    def c_next_from(ex, st, args, path, callee):
        mem = dict(st['mem'])
        stream = mem[STREAM].elems
        cur = mem[CUR]
        if cur < len(stream):
            item = Struct([Opaque('start'), stream[cur], Opaque('end')])
            mem[CUR] = cur + 1
            return [('ret', OK(SOME(item)), path, mem)]
        return [('ret', OK(NONE()), path, mem)]

    def c_parse_unary(ex, st, args, path, callee):
        # an operand is one identifier token; anything else is a parse error of the operand
        p = ex.read_ref(st['mem'], args[0])
        cur = p.fields[FIELDS.index('current')]
        if not (isinstance(cur, Enum) and cur.variant == 'Some'):
            return ret(ERR(Err('expected expression', 'ParseError')), path)
        tok = cur.fields[0].fields[1]
        if isinstance(tok, Enum) and tok.variant == 'Identifier':
            name = tok.fields[0]
            outs = ex.call(st, 'ParserRd::<I>::advance', [args[0]], path, 1)
            return [('ret', OK(Struct([Enum('Identifier', [name], 'ExprP'), Opaque('span')], 'Spanned')), r[2], r[3]) for r in outs]
        return ret(ERR(Err('expected expression', 'ParseError')), path)

    def c_ast(ex, st, args, path, callee):
        return ret(Struct([args[0], Opaque('span')], 'Spanned'), path)

    def c_opaque(ex, st, args, path, callee):
        return ret(Opaque('span part'), path)

    def c_error(ex, st, args, path, callee):
        return ret(Err('parse error', 'ParseError'), path)

    def c_as_ref(ex, st, args, path, callee):
        r = args[0]
        o = ex.read_ref(st['mem'], r) if isinstance(r, Ref) else r
        if o.variant == 'None':
            return ret(NONE(), path)
        return ret(SOME(Ref(r.addr, r.path + (0,))), path)

    def c_box_new(ex, st, args, path, callee):
        return ret(args[0], path)

    def c_take(ex, st, args, path, callee):
        return ret(NONE(), path)
    return [
        ('token iterator: next_from = next token of the modelled stream (stub)', r'ParserRd::<.*>::next_from$', c_next_from),
        ('parse_unary = one identifier operand (stub for operand parsing)', r'ParserRd::<.*>::parse_unary$', c_parse_unary),
        ('ToAst::ast = node with an opaque span', r' as (ast::)?ToAst>::ast$', c_ast),
        ('Span::begin/end, Pos::get, ParserRd::pos = opaque positions', r'^(codemap::)?(Span::begin|Span::end|Pos::get)$|ParserRd::<.*>::pos$', c_opaque),
        ('error_expected = a parse error token', r'ParserRd::<.*>::error_expected$', c_error),
        ('Option::as_ref', r'^(std::option::)?Option::<.*>::as_ref$', c_as_ref),
        ('Box::new = the value', r'^Box::<.*>::new$', c_box_new),
    ]


FIELDS = []


def tree(ex, mem, v):
    """AST -> fully parenthesised string"""
    v = ex.deref(mem, v)
    if isinstance(v, Struct) and v.ty == 'Spanned':
        return tree(ex, mem, v.fields[0])
    if isinstance(v, Enum) and v.variant == 'Identifier':
        return str(v.fields[0])
    if isinstance(v, Enum) and v.variant == 'Op':
        return f'({tree(ex, mem, v.fields[0])} {ex.deref(mem, v.fields[1]).variant} {tree(ex, mem, v.fields[2])})'
    if isinstance(v, Enum) and v.variant == 'Not':
        return f'(not {tree(ex, mem, v.fields[0])})'
    raise Unsupported(f'unexpected AST node {v}')


def run(sess):
    from . import c06
    global FIELDS
    t1 = time.time()
    ob = Obligation('C06.parse_expr_loop', 'the real Pratt loop (parse_expr, executed from MIR) groups `a T1 b T2 c`, `not a T1 b`, `a T1 not b` and the `not in` forms exactly as the reference grammar, for every operator token T1, T2 chosen by the solver; chained comparisons are rejected',
                    'token streams of at most 6 tokens: three identifier operands, two symbolic binary-operator tokens (all 20 single-token operators), prefix `not` (also before the first and the second operand of a two-operator chain), infix `not in`; operands are single identifiers')
    try:
        toks = enum_variants(LEXER, 'Token')
        binops = enum_variants(AST, 'BinOp')
        mexec.ENUMS['Token'] = toks
        mexec.ENUMS['BinOp'] = binops
        mexec.ENUMS['ExprP'] = enum_variants(AST, 'ExprP')
        FIELDS = struct_fields(PARSER, 'ParserRd')
        ops = [t for t in c06.REF if t != 'Not']
        opidx = [toks.index(t) for t in ops]
        name_of = {toks.index(t): t for t in ops}
        T1, T2, T3 = z3.Int('T1'), z3.Int('T2'), z3.Int('T3')
        dom = lambda T: z3.Or([T == i for i in opidx])
        ident = lambda n: Enum('Identifier', [n], 'Token')
        NOT, IN = Enum('Not', [], 'Token'), Enum('In', [], 'Token')
        s1, s2, s3 = SymEnum('Token', T1), SymEnum('Token', T2), SymEnum('Token', T3)
        streams = [
            ('a T1 b T2 c', [ident('a'), s1, ident('b'), s2, ident('c')], [dom(T1), dom(T2)]),
            ('not a T1 b', [NOT, ident('a'), s1, ident('b')], [dom(T1)]),
            ('a T1 not b', [ident('a'), s1, NOT, ident('b')], [dom(T1)]),
            ('a not in b T1 c', [ident('a'), NOT, IN, ident('b'), s1, ident('c')], [dom(T1)]),
            ('a T1 b not in c', [ident('a'), s1, ident('b'), NOT, IN, ident('c')], [dom(T1)]),
            ('not a not in b', [NOT, ident('a'), NOT, IN, ident('b')], []),
            ('not not a T1 b', [NOT, NOT, ident('a'), s1, ident('b')], [dom(T1)]),
            ('not a T1 b T2 c', [NOT, ident('a'), s1, ident('b'), s2, ident('c')], [dom(T1), dom(T2)]),
            ('a T1 not b T2 c', [ident('a'), s1, NOT, ident('b'), s2, ident('c')], [dom(T1), dom(T2)]),
        ]
        expected = 3 * len(ops) * len(ops) + 5 * len(ops) + 1
        if sess.tier == 'thorough' or os.environ.get('VERIF_C06_THREE') == '1':
            # three solver-chosen operators: 20^3 instances, every one enumerated from the paths of the real loop
            streams.append(('a T1 b T2 c T3 d', [ident('a'), s1, ident('b'), s2, ident('c'), s3, ident('d')], [dom(T1), dom(T2), dom(T3)]))
            expected += len(ops) ** 3
            ob.bounds = 'token streams of at most 7 tokens: up to four identifier operands, up to three symbolic binary-operator tokens (all 20 single-token operators, 8000 triples), prefix `not`, infix `not in`; operands are single identifiers'
        nwit = 0
        for label, stream, conds in streams:
            ex = sess.executor(True, extra=contracts(toks))
            ex.max_depth = 40 if 'T3' not in label else 60
            fn = ex.get_fn(sess.db.find_in_file('parser_rd.rs', 'parse_expr'))
            first = Struct([Opaque('start'), stream[0], Opaque('end')])
            rec = [Opaque(f'ParserRd.{n}') for n in FIELDS]
            rec[FIELDS.index('current')] = SOME(first)
            rec[FIELDS.index('pending_error')] = NONE()
            rec[FIELDS.index('last_end')] = Opaque('last_end')
            mem = {P: Struct(rec, 'ParserRd'), STREAM: Slice(None, list(stream), 'stream'), CUR: 1}
            outs = ex.run(fn, [Ref(P), z3.IntVal(0)], Path(conds), mem=mem)
            ob.paths += len(outs)
            for v, p, m in outs:
                # every model of this path: the operator tokens it stands for
                blocked = []
                while True:
                    r, model = sess.decide(ob, list(p.conds) + blocked)
                    if r == 'unknown':
                        ob.inconclusive('solver unknown')
                        break
                    if r != 'sat':
                        break
                    t1v = model_int(model, T1) if 'T1' in label else None
                    t2v = model_int(model, T2) if 'T2' in label else None
                    t3v = model_int(model, T3) if 'T3' in label else None
                    blocked.append(z3.Or(*([T1 != t1v] if t1v is not None else []), *([T2 != t2v] if t2v is not None else []), *([T3 != t3v] if t3v is not None else []))) if (t1v is not None or t2v is not None) else blocked.append(z3.BoolVal(False))
                    n1 = name_of.get(t1v)
                    n2 = name_of.get(t2v)
                    n3 = name_of.get(t3v)
                    src = label.replace('T1', c06.REF[n1][2] if n1 else '').replace('T2', c06.REF[n2][2] if n2 else '').replace('T3', c06.REF[n3][2] if n3 else '')
                    want = reference_tree(label, n1, n2, n3)
                    consumed_all = m[CUR] >= len(stream) and not (isinstance(m[P].fields[FIELDS.index('current')], Enum) and m[P].fields[FIELDS.index('current')].variant == 'Some')
                    if v.variant == 'Ok':
                        got = tree(ex, m, v.fields[0])
                        if not consumed_all:
                            got = 'error'      # trailing tokens: the statement parser rejects the rest
                    else:
                        got = 'error'
                    nwit += 1
                    if got != want:
                        ob.fail({'kind': 'bp', 'what': f'`{src}` parsed by the real loop as {got}, reference {want}', 't1': n1 or 'Plus', 't2': n2 or 'Plus', 'src': src, 'want': want})
                    if t1v is None and t2v is None:
                        break
            for pn in ex.panics:
                sess.panic_edges_checked += 1
                r, model = sess.decide(ob, pn.conds)
                if r == 'sat':
                    ob.fail({'kind': 'bp', 'what': 'panic in parse_expr: ' + pn.msg, 't1': 'Plus', 't2': 'Plus', 'src': label, 'want': 'no panic'})
            sess.absorb(ex)
        ob.designated = {'all operator pairs reached': nwit >= expected}
        if nwit < expected:
            ob.inconclusive(f'only {nwit} (stream, operator) instances reached a result (vacuity)')
        ob.sample = {'instances': nwit}
        ob.twin = 'sat'
    except (Unsupported, LookupError) as e:
        ob.inconclusive(f'unsupported: {e}')
    ob.wall_s = time.time() - t1
    sess.add(ob)


def bop(t):
    from . import c06
    return c06.REF[t][0]


def ref_general(operands, opnames):
    """reference grammar for `x0 o1 x1 o2 x2 ...`: operator-precedence parse over the precedence classes of the
    Starlark spec (all binary operators left-associative), written as a shunting-yard over levels, not binding powers;
    a comparison whose operand is an unparenthesised comparison is a syntax error"""
    from . import c06
    lvl = lambda t: c06.REF[t][1]
    out, stack = [operands[0]], []

    def reduce():
        o = stack.pop()
        r = out.pop()
        l = out.pop()
        out.append((l, o, r))
    for o, x in zip(opnames, operands[1:]):
        while stack and lvl(stack[-1]) >= lvl(o):
            reduce()
        stack.append(o)
        out.append(x)
    while stack:
        reduce()
    bad = []

    def show(t):
        if isinstance(t, str):
            return t
        l, o, r = t
        if lvl(o) == 4 and any(not isinstance(k, str) and lvl(k[1]) == 4 for k in (l, r)):
            bad.append(o)
        return f'({show(l)} {bop(o)} {show(r)})'
    s = show(out[0])
    return 'error' if bad else s


def reference_tree(label, n1, n2, n3=None):
    """the reference grammar's grouping, operators written as BinOp names"""
    from . import c06
    lvl = lambda t: c06.REF[t][1]
    CMP = 4

    def two(a, o1, b, o2, c):
        """a o1 b o2 c with precedence levels; chained comparisons rejected"""
        if lvl(o1) == CMP and lvl(o2) == CMP:
            return 'error'
        if lvl(o2) > lvl(o1):
            return f'({a} {bop(o1)} ({b} {bop(o2)} {c}))'
        return f'(({a} {bop(o1)} {b}) {bop(o2)} {c})'
    if label == 'not a T1 b T2 c':
        # NotTest = 'not' NotTest | CompTest: the operand of `not` is the longest run of operators tighter than `not`
        names, xs = [n1, n2], ['a', 'b', 'c']
        k = 0
        while k < len(names) and lvl(names[k]) > c06.NOT_LEVEL:
            k += 1
        inner = ref_general(xs[:k + 1], names[:k])
        if inner == 'error':
            return 'error'
        return ref_general([f'(not {inner})'] + xs[k + 1:], names[k:])
    if label == 'a T1 not b T2 c':
        if lvl(n1) > c06.NOT_LEVEL:
            return 'error'          # `not` cannot start an operand of a tighter operator
        if lvl(n2) > c06.NOT_LEVEL:
            return f'(a {bop(n1)} (not (b {bop(n2)} c)))'
        return ref_general(['a', '(not b)', 'c'], [n1, n2])
    if label == 'a T1 b T2 c T3 d':
        return ref_general(['a', 'b', 'c', 'd'], [n1, n2, n3])
    if label == 'a T1 b T2 c':
        assert two('a', n1, 'b', n2, 'c') == ref_general(['a', 'b', 'c'], [n1, n2])
        return two('a', n1, 'b', n2, 'c')
    if label == 'not a T1 b':
        return f'(not (a {bop(n1)} b))' if lvl(n1) > c06.NOT_LEVEL else f'((not a) {bop(n1)} b)'
    if label == 'a T1 not b':
        return f'(a {bop(n1)} (not b))' if lvl(n1) < c06.NOT_LEVEL else 'error'
    if label == 'a not in b T1 c':
        return two('a', 'Not', 'b', n1, 'c')
    if label == 'a T1 b not in c':
        return two('a', n1, 'b', 'Not', 'c')
    if label == 'not a not in b':
        return '(not (a NotIn b))'
    if label == 'not not a T1 b':
        return f'(not (not (a {bop(n1)} b)))' if lvl(n1) > c06.NOT_LEVEL else f'((not (not a)) {bop(n1)} b)'
    raise ValueError(label)
