"""Native replay of solver witnesses against the real build (dev and release profiles)."""
import json
import os
import shutil
import subprocess
import tempfile
import time

from mirsym.mir import WORK

REPLAY_SRC = '/verif/replay'
REPLAY_TARGET = os.path.join(WORK, 'replay-target')


class Replayer:
    def __init__(self, log=None):
        self.bins = {}
        self.build_s = {}
        self.log = log or os.path.join(WORK, 'replay-build.log')
        self.runs = 0

    def build(self, profile='dev'):
        if profile in self.bins:
            return self.bins[profile]
        t0 = time.time()
        lock_src = '/repo/Cargo.lock'
        if os.path.exists(lock_src):
            shutil.copy(lock_src, os.path.join(REPLAY_SRC, 'Cargo.lock'))
        env = dict(os.environ, CARGO_NET_OFFLINE='true')
        env.pop('RUSTFLAGS', None)
        cmd = ['cargo', 'build', '--offline', '--target-dir', REPLAY_TARGET]
        if profile == 'release':
            cmd.append('--release')
        r = subprocess.run(cmd, cwd=REPLAY_SRC, env=env, stdout=subprocess.PIPE, stderr=subprocess.STDOUT, text=True)
        with open(self.log, 'a') as f:
            f.write('$ ' + ' '.join(cmd) + '\n' + r.stdout + '\n')
        if r.returncode != 0:
            raise RuntimeError('replay binary build failed:\n' + r.stdout[-3000:])
        self.build_s[profile] = round(time.time() - t0, 1)
        self.bins[profile] = os.path.join(REPLAY_TARGET, 'debug' if profile == 'dev' else 'release', 'verif-replay')
        return self.bins[profile]

    def run(self, cases, profile='dev', timeout=300):
        """cases: list of dict -> list of result dicts"""
        binp = self.build(profile)
        fd, path = tempfile.mkstemp(suffix='.json', dir=WORK)
        with os.fdopen(fd, 'w') as f:
            json.dump(cases, f)
        try:
            r = subprocess.run([binp, path], stdout=subprocess.PIPE, stderr=subprocess.PIPE, text=True, timeout=timeout)
        finally:
            os.unlink(path)
        self.runs += len(cases)
        if r.returncode != 0:
            # hard abort (not an unwinding panic): report per case by re-running one at a time
            if len(cases) == 1:
                return [{'abort': f'exit status {r.returncode}', 'stderr': r.stderr[-400:]}]
            out = []
            for c in cases:
                out += self.run([c], profile, timeout)
            return out
        return json.loads(r.stdout.strip().splitlines()[-1])


# ----------------------------------------------------------------------------- expected values (Python semantics)
def py_binop(op, a, b):
    """returns ('ok', repr) or ('err', class)"""
    try:
        if op == '+':
            return ('ok', str(a + b))
        if op == '-':
            return ('ok', str(a - b))
        if op == '*':
            return ('ok', str(a * b))
        if op == '//':
            return ('ok', str(a // b)) if b != 0 else ('err', 'zero')
        if op == '%':
            return ('ok', str(a % b)) if b != 0 else ('err', 'zero')
        if op == '&':
            return ('ok', str(a & b))
        if op == '|':
            return ('ok', str(a | b))
        if op == '^':
            return ('ok', str(a ^ b))
        if op == '<<':
            if b < 0:
                return ('err', 'negative shift')
            if a != 0 and b > 100000:
                return ('err', 'shift limit')
            return ('ok', str(a << b))
        if op == '>>':
            if b < 0:
                return ('err', 'negative shift')
            return ('ok', str(a >> min(b, 1 << 20) if b < (1 << 20) else (-1 if a < 0 else 0)))
        if op == 'cmp':
            return ('ok', '(%s, %s)' % ('True' if a < b else 'False', 'True' if a == b else 'False'))
        if op == '==':
            return ('ok', 'True' if a == b else 'False')
    except Exception as e:          # pragma: no cover
        return ('err', str(e))
    raise ValueError(op)


def binop_program(op, x, y):
    if op == 'cmp':
        return f'({x} < {y}, {x} == {y})'
    return f'{x} {op} {y}'


def py_unop(op, a):
    if op == 'neg':
        return ('ok', str(-a)), lambda x: f'-{x}'
    if op == 'not':
        return ('ok', str(~a)), lambda x: f'~{x}'
    if op == 'abs':
        return ('ok', str(abs(a))), lambda x: f'abs({x})'
    raise ValueError(op)


def lit(n):
    return f'({n})' if n < 0 else str(n)


def matches(expected, got):
    """does the native result agree with the expected outcome"""
    kind, val = expected
    if 'panic' in got or 'abort' in got:
        return False
    if kind == 'ok':
        return got.get('ok') == val
    return 'err' in got
