"""C01 — agreement with the reference semantics: index / slice / range arithmetic kernels (DESIGN.md §5-C01).

values/index.rs, range/range_type.rs and starlark_syntax/convert_indices.rs are executed from MIR
for every i32 start/stop/step/index (and None / absent / non-int arguments) and compared with
CPython's documented algorithms written here as SMT integer formulas."""
import itertools
import time
import z3

from .common import (DIVIDES, Session, Obligation, Path, Enum, Struct, Ref, Big, Opaque, Err, Slice, Unsupported, ret, fork2, SOME, NONE, OK, ERR, d,
                     model_int, in_range, I32_MIN, I32_MAX, fdiv, fmod)

CRATES = ('starlark_syntax', 'starlark')
I32 = lambda x: z3.And(x >= I32_MIN, x <= I32_MAX)


# ----------------------------------------------------------------------------- contracts (receiver plumbing)
def c_is_none(ex, st, args, path, callee):
    return ret(z3.BoolVal(args[0].variant == 'NoneV'), path)


def c_unpack_i32(ex, st, args, path, callee):
    v = args[0]
    if isinstance(v, Enum) and v.variant == 'Int':
        return ret(OK(v.fields[0]), path)
    return ret(ERR(Err('unpack_value_err: not an i32', 'NotI32')), path)


def c_alloc_i32(ex, st, args, path, callee):
    return ret(Enum('Int', [args[1]], 'Value'), path)


def c_alloc_range(ex, st, args, path, callee):
    return ret(args[1], path)


def c_range_length(ex, st, args, path, callee):
    m = ex.db.find_in_file('range_type.rs', 'length', r'_1: &range_type::Range\)')
    return [('ret', v, p, mm) for v, p, mm in ex.run(ex.get_fn(m), args, path, 1, (), st['mem'])]


def c_range_to_bool(ex, st, args, path, callee):
    m = ex.db.find_in_file('range_type.rs', 'to_bool', r'_1: &range_type::Range\)')
    return [('ret', v, p, mm) for v, p, mm in ex.run(ex.get_fn(m), args, path, 1, (), st['mem'])]


def c_unpack_num(ex, st, args, path, callee):
    v = args[0]
    if isinstance(v, Struct) and v.ty == 'ValueNum':
        return ret(SOME(v.fields[0]), path)
    if isinstance(v, Enum) and v.variant == 'Other':
        return ret(NONE(), path)
    raise Unsupported(f'unpack_num of {v}')


def c_nonzero_new(ex, st, args, path, callee):
    a = args[0]
    return fork2(ex, path, a != 0, SOME(a), NONE())


def c_downcast_range(ex, st, args, path, callee):
    v = args[0]
    if isinstance(v, Struct) and v.ty == 'ValueRange':
        return ret(SOME(v.fields[0]), path)
    return ret(NONE(), path)


EXTRA = [
    ('Value::is_none on the argument datatype None|Int(i32)|Other (receiver plumbing)', r'Value::<.*>::is_none$', c_is_none),
    ('i32::unpack_value_err on the argument datatype: Ok(i) for Int(i), Err otherwise (receiver plumbing)', r'^<i32 as UnpackValue<.*>>::unpack_value_err$', c_unpack_i32),
    ('Heap::alloc::<i32> = the int value', r'Heap::<.*>::alloc::<i32>$', c_alloc_i32),
    ('Heap::alloc::<Range> = the range record', r'Heap::<.*>::alloc::<(range_type::)?Range>$', c_alloc_range),
    ('<Range as StarlarkValue>::length -> repository impl', r'^<(range_type::)?Range as StarlarkValue<.*>>::length$', c_range_length),
    ('<Range as StarlarkValue>::to_bool -> repository impl', r'^<(range_type::)?Range as StarlarkValue<.*>>::to_bool$', c_range_to_bool),
    ('Value::unpack_num = the operand\'s NumRef (receiver plumbing)', r'Value::<.*>::unpack_num$', c_unpack_num),
    ('NonZero::<i32>::new = Some iff != 0', r'^(std|core)::num::NonZero::<i32>::new$', c_nonzero_new),
]


# ----------------------------------------------------------------------------- reference semantics (CPython) as SMT terms
def py_adjust(v, step, L, is_start):
    """PySlice_AdjustIndices for one bound; v is None (defaulted) or an Int term"""
    if v is None:
        return z3.If(step < 0, (L - 1) if is_start else z3.IntVal(-1), z3.IntVal(0) if is_start else L)
    return z3.If(v < 0, z3.If(v + L < 0, z3.If(step < 0, z3.IntVal(-1), z3.IntVal(0)), v + L),
                 z3.If(v >= L, z3.If(step < 0, L - 1, L), v))


def py_range_len(a, b, c):
    return z3.If(z3.And(c > 0, a < b), (b - a - 1) / c + 1, z3.If(z3.And(c < 0, a > b), (a - b - 1) / (-c) + 1, z3.IntVal(0)))


def py_range_eq(r1, r2):
    l1, l2 = py_range_len(*r1), py_range_len(*r2)
    return z3.And(l1 == l2, z3.Or(l1 == 0, z3.And(r1[0] == r2[0], z3.Or(l1 == 1, r1[2] == r2[2]))))


def py_in_range(x, a, b, c, defs=None):
    d1, d2 = DIVIDES(c, x - a), DIVIDES(-c, a - x)
    if defs is not None:
        defs += [d1 == ((x - a) % c == 0), d2 == ((a - x) % (-c) == 0)]
    return z3.If(c > 0, z3.And(a <= x, x < b, d1), z3.And(b < x, x <= a, d2))


def py_clamp_index(v, L):
    """str.find / list.index style: negative counts from the end, then clamp to [0, L]"""
    w = z3.If(v < 0, v + L, v)
    return z3.If(w < 0, z3.IntVal(0), z3.If(w > L, L, w))


# ----------------------------------------------------------------------------- helpers
def opt_value(kind, name):
    """an Option<Value> argument: absent / None / Int(i32) / Other"""
    if kind == 'absent':
        return Enum('None', [], 'Option'), None, []
    if kind == 'none':
        return SOME(Enum('NoneV', [], 'Value')), None, []
    if kind == 'other':
        return SOME(Enum('Other', [], 'Value')), 'other', []
    x = z3.Int(name)
    return SOME(Enum('Int', [x], 'Value')), x, [I32(x)]


def finish(sess, ob, ex, outs, t1, witness_of, base_conds=None):
    for pn in ex.panics:
        sess.panic_edges_checked += 1
        r, model = sess.decide(ob, pn.conds, ex.extra_lemmas)
        if r == 'sat':
            w = witness_of(model)
            w['panic'] = pn.msg
            w['in'] = pn.fn[-80:]
            ob.fail(w)
        elif r == 'unknown':
            ob.inconclusive(f'solver unknown on panic edge {pn.msg}')
    if outs:
        r, model = sess.decide(ob, list(outs[0][1].conds), ex.extra_lemmas)
        ob.twin = r
        if r == 'sat':
            ob.sample = witness_of(model)
        else:
            ob.inconclusive('vacuity twin not satisfiable')
    else:
        ob.inconclusive('no return path')
    sess.absorb(ex)
    ob.wall_s = time.time() - t1
    return sess.add(ob)


def guarded(sess, name, desc, bounds, body):
    t1 = time.time()
    ob = Obligation(name, desc, bounds)
    try:
        return body(ob, t1)
    except Unsupported as e:
        ob.inconclusive(f'unsupported MIR: {e}')
    except LookupError as e:
        ob.inconclusive(f'function not found: {e}')
    ob.wall_s = time.time() - t1
    return sess.add(ob)


def check_viol(sess, ob, conds, viol, lemmas, witness_of, extra=None, refine=None, prefer=None):
    r, model = sess.decide(ob, list(conds) + [viol], lemmas, refine=refine)
    if r == 'sat' and prefer:
        # ask again for a small witness (one the native replay can run); any model is a witness, a small one replays
        r2, m2 = sess.decide(ob, list(conds) + [viol] + list(prefer), lemmas, refine=refine)
        if r2 == 'sat':
            model = m2
    if r == 'sat':
        w = witness_of(model)
        if extra:
            w.update(extra)
        ob.fail(w)
    elif r == 'unknown':
        ob.inconclusive(f'solver unknown: {model}')
    return r


# ----------------------------------------------------------------------------- obligations
def ob_convert_index(sess):
    def body(ob, t1):
        ex = sess.executor(True, extra=EXTRA)
        x, L = z3.Int('index'), z3.Int('len')
        fn = ex.get_fn(sess.db.find(r'^fn (?:[\w:]*::)?convert_index\(_1: layout::value::Value<.*_2: i32\)'))
        wit = lambda m: {'kind': 'index', 'len': model_int(m, L), 'index': model_int(m, x)}
        outs = ex.run(fn, [Enum('Int', [x], 'Value'), L], Path([I32(x), L >= 0, L <= I32_MAX]))
        ob.paths = len(outs)
        i = z3.If(x < 0, x + L, x)
        valid = z3.And(i >= 0, i < L)
        for v, p, m in outs:
            if v.variant == 'Ok':
                check_viol(sess, ob, p.conds, z3.Or(z3.Not(valid), v.fields[0] != i), [], wit, prefer=[L <= 8])
            else:
                check_viol(sess, ob, p.conds, valid, [], wit, prefer=[L <= 8])
        # non-int argument -> error, never a panic
        outs2 = ex.run(fn, [Enum('Other', [], 'Value'), L], Path([L >= 0, L <= I32_MAX]))
        for v, p, m in outs2:
            if v.variant != 'Err':
                ob.fail({'kind': 'index', 'len': 0, 'index': 'non-int', 'note': 'non-int index accepted'})
        return finish(sess, ob, ex, outs, t1, wit)
    return guarded(sess, 'C01.convert_index', 'xs[i]: index normalisation = Python (negative from the end, error iff out of range)', 'every i32 index, every len in 0..2^31-1', body)


def ob_slice_indices(sess):
    obs = []
    for ks, ke, kt in itertools.product(('absent', 'none', 'int', 'other'), repeat=3):
        if [ks, ke, kt].count('other') > 1:
            continue

        def body(ob, t1, ks=ks, ke=ke, kt=kt):
            ex = sess.executor(True, extra=EXTRA)
            L = z3.Int('len')
            (s_, sx, sc), (e_, exx, ec), (t_, tx, tc) = opt_value(ks, 'start'), opt_value(ke, 'stop'), opt_value(kt, 'step')
            fn = ex.get_fn(sess.db.find(r'^fn (?:[\w:]*::)?convert_slice_indices\(_1: i32'))
            outs = ex.run(fn, [L, s_, e_, t_], Path([L >= 0, L <= I32_MAX] + sc + ec + tc))
            ob.paths = len(outs)
            has_other = 'other' in (ks, ke, kt)
            step = tx if (tx is not None and not isinstance(tx, str)) else z3.IntVal(1)

            def wit(m):
                f = lambda k, t: ({'absent': 'absent', 'none': 'None', 'other': 'non-int'}[k] if k != 'int' else model_int(m, t))
                return {'kind': 'slice', 'len': model_int(m, L), 'start': f(ks, sx), 'stop': f(ke, exx), 'step': f(kt, tx)}
            sx2 = None if (sx is None or isinstance(sx, str)) else sx
            ex2 = None if (exx is None or isinstance(exx, str)) else exx
            rs, re_ = py_adjust(sx2, step, L, True), py_adjust(ex2, step, L, False)
            for v, p, m in outs:
                if v.variant == 'Err':
                    if has_other:
                        continue
                    check_viol(sess, ob, p.conds, step != 0, [], wit, prefer=[L <= 8])   # error allowed only for step == 0
                else:
                    if has_other:
                        ob.fail(dict(wit(None) if False else {'kind': 'slice', 'note': 'non-int slice argument accepted'}))
                        continue
                    tup = v.fields[0]
                    check_viol(sess, ob, p.conds, z3.Or(step == 0, tup.fields[0] != rs, tup.fields[1] != re_, tup.fields[2] != step), [], wit, prefer=[L <= 8])
            return finish(sess, ob, ex, outs, t1, wit)
        obs.append(guarded(sess, f'C01.slice_indices[{ks},{ke},{kt}]', 'slice bounds = CPython slice.indices(len) (PySlice_AdjustIndices); error iff step == 0 or a non-int argument',
                           'every i32 / None / absent start, stop, step; every len in 0..2^31-1', body))
    return obs


def mk_range(name, mem):
    a, b, c = z3.Int(name + '_start'), z3.Int(name + '_stop'), z3.Int(name + '_step')
    mem[('h', name)] = Struct([a, b, c], 'Range')
    return Ref(('h', name)), (a, b, c), [I32(a), I32(b), I32(c), c != 0]


def rwit(m, r, **kw):
    w = {'kind': 'range', 'start': model_int(m, r[0]), 'stop': model_int(m, r[1]), 'step': model_int(m, r[2])}
    for k, t in kw.items():
        w[k] = model_int(m, t) if z3.is_expr(t) else t
    return w


def ob_range_length(sess):
    def body(ob, t1):
        ex = sess.executor(True, extra=EXTRA)
        mem = {}
        ref, r, rc = mk_range('r', mem)
        fn = ex.get_fn(sess.db.find_in_file('range_type.rs', 'length', r'_1: &range_type::Range\)'))
        outs = ex.run(fn, [ref], Path(rc), mem=mem)
        ob.paths = len(outs)
        want = py_range_len(*r)
        wit = lambda m: rwit(m, r, op='len')
        for v, p, m in outs:
            if v.variant == 'Ok':
                check_viol(sess, ob, p.conds, v.fields[0] != want, [], wit)
            else:
                check_viol(sess, ob, p.conds, want <= I32_MAX, [], wit)     # documented error only if the length does not fit i32
        return finish(sess, ob, ex, outs, t1, wit)
    return guarded(sess, 'C01.range_length', 'len(range(a,b,c)) = Python; error only when the length does not fit i32', 'every (i32, i32, non-zero i32)', body)


def ob_range_bool(sess):
    def body(ob, t1):
        ex = sess.executor(True, extra=EXTRA)
        mem = {}
        ref, r, rc = mk_range('r', mem)
        fn = ex.get_fn(sess.db.find_in_file('range_type.rs', 'to_bool', r'_1: &range_type::Range\)'))
        outs = ex.run(fn, [ref], Path(rc), mem=mem)
        ob.paths = len(outs)
        wit = lambda m: rwit(m, r, op='bool')
        for v, p, m in outs:
            check_viol(sess, ob, p.conds, v != (py_range_len(*r) > 0), [], wit)
        return finish(sess, ob, ex, outs, t1, wit)
    return guarded(sess, 'C01.range_bool', 'bool(range(a,b,c)) = (len > 0)', 'every (i32, i32, non-zero i32)', body)


def range_elem_lemma(a, b, c, J):
    """for 0 <= J < len(range(a,b,c)) the J-th element lies between start and stop (proved by the solver before use)"""
    L = py_range_len(a, b, c)
    e = a + J * c
    return z3.Implies(z3.And(J >= 0, J < L), z3.If(c > 0, z3.And(a <= e, e < b), z3.And(b < e, e <= a)))


def prove_elem_lemma(sess, ob, r, rc):
    J = z3.Int('J!lemma')
    res, _ = sess.decide(ob, rc + [z3.Not(range_elem_lemma(r[0], r[1], r[2], J))])
    if res != 'unsat':
        ob.inconclusive(f'range element lemma not proved ({res})')
        return False
    return True


def ob_range_at(sess):
    def body(ob, t1):
        ex = sess.executor(True, extra=EXTRA)
        mem = {}
        ref, r, rc = mk_range('r', mem)
        i = z3.Int('index')
        fn = ex.get_fn(sess.db.find_in_file('range_type.rs', 'at', r'_1: &range_type::Range'))
        outs = ex.run(fn, [ref, Enum('Int', [i], 'Value'), Opaque('heap')], Path(rc + [I32(i)]), mem=mem)
        ob.paths = len(outs)
        L = py_range_len(*r)
        j = z3.If(i < 0, i + L, i)
        valid = z3.And(j >= 0, j < L)
        wit = lambda m: rwit(m, r, op='at', index=i)
        lemmas = []
        if prove_elem_lemma(sess, ob, r, rc):
            # instantiate the proved lemma at every symbolic product step * t the code computes
            for u, v in ex.products:
                for f, t in ((u, v), (v, u)):
                    if f.eq(r[2]):
                        lemmas.append(range_elem_lemma(r[0], r[1], r[2], t))
            lemmas.append(range_elem_lemma(r[0], r[1], r[2], j))
        ex.extra_lemmas += lemmas
        for v, p, m in outs:
            if v.variant == 'Ok':
                val = v.fields[0].fields[0]
                check_viol(sess, ob, p.conds, z3.Or(z3.Not(valid), val != r[0] + j * r[2]), lemmas, wit)
            else:
                check_viol(sess, ob, p.conds, z3.And(valid, L <= I32_MAX), lemmas, wit)
        return finish(sess, ob, ex, outs, t1, wit)
    return guarded(sess, 'C01.range_at', 'range(a,b,c)[i] = Python; IndexError iff out of range (or the documented length error)', 'every (i32, i32, non-zero i32, i32)', body)


def ob_range_in(sess):
    obs = []
    for ok in ('small', 'big', 'other'):
        def body(ob, t1, ok=ok):
            ex = sess.executor(True, extra=EXTRA)
            mem = {}
            ref, r, rc = mk_range('r', mem)
            x = z3.Int('x')
            if ok == 'small':
                other = Struct([Enum('Int', [Enum('Small', [x], 'StarlarkIntRef')], 'NumRef')], 'ValueNum')
                oc = [I32(x)]
            elif ok == 'big':
                mem[('h', 'n')] = Struct([Big(x)], 'StarlarkBigInt')
                other = Struct([Enum('Int', [Enum('Big', [Ref(('h', 'n'))], 'StarlarkIntRef')], 'NumRef')], 'ValueNum')
                oc = [z3.Or(x < I32_MIN, x > I32_MAX)]
            else:
                other = Enum('Other', [], 'Value')
                oc = []
            fn = ex.get_fn(sess.db.find_in_file('range_type.rs', 'is_in', r'_1: &range_type::Range'))
            outs = ex.run(fn, [ref, other], Path(rc + oc), mem=mem)
            ob.paths = len(outs)
            wit = lambda m: rwit(m, r, op='in', x=(x if ok != 'other' else 'non-number'))
            defs = []
            want = py_in_range(x, *r, defs=defs) if ok != 'other' else z3.BoolVal(False)
            for v, p, m in outs:
                if v.variant != 'Ok':
                    ob.fail({'kind': 'range', 'note': 'is_in returned an error'})
                    continue
                check_viol(sess, ob, p.conds, v.fields[0] != want, [], wit, refine=defs + ex.uf_defs)
            return finish(sess, ob, ex, outs, t1, wit)
        obs.append(guarded(sess, f'C01.range_in[{ok}]', 'x in range(a,b,c) = Python (non-numbers: False, as documented)', 'every (i32, i32, non-zero i32) and every integer x of this representation', body))
    return obs


def ob_range_eq(sess):
    def body(ob, t1):
        ex = sess.executor(True, extra=EXTRA)
        mem = {}
        ref1, r1, c1 = mk_range('r', mem)
        ref2, r2, c2 = mk_range('s', mem)
        fn = ex.get_fn(sess.db.find_in_file('range_type.rs', 'equals_range'))
        outs = ex.run(fn, [ref1, ref2], Path(c1 + c2), mem=mem)
        ob.paths = len(outs)

        def wit(m):
            w = rwit(m, r1, op='eq')
            w['other'] = [model_int(m, t) for t in r2]
            return w
        for v, p, m in outs:
            if v.variant == 'Ok':
                check_viol(sess, ob, p.conds, v.fields[0] != py_range_eq(r1, r2), [], wit)
            else:
                check_viol(sess, ob, p.conds, z3.And(py_range_len(*r1) <= I32_MAX, py_range_len(*r2) <= I32_MAX), [], wit)
        return finish(sess, ob, ex, outs, t1, wit)
    return guarded(sess, 'C01.range_eq', 'range == range iff same sequence (Python); error only if a length does not fit i32', 'every pair of (i32, i32, non-zero i32)', body)


def ob_range_slice(sess):
    obs = []
    for ks, ke, kt in itertools.product(('absent', 'int'), repeat=3):
        def body(ob, t1, ks=ks, ke=ke, kt=kt):
            ex = sess.executor(True, extra=EXTRA)
            mem = {}
            ref, r, rc = mk_range('r', mem)
            (s_, sx, sc), (e_, exx, ec), (t_, tx, tc) = opt_value(ks, 'start'), opt_value(ke, 'stop'), opt_value(kt, 'step')
            fn = ex.get_fn(sess.db.find_in_file('range_type.rs', 'slice', r'_1: &range_type::Range'))
            outs = ex.run(fn, [ref, s_, e_, t_, Opaque('heap')], Path(rc + sc + ec + tc), mem=mem)
            ob.paths = len(outs)
            L = py_range_len(*r)
            step = tx if tx is not None else z3.IntVal(1)
            rs, re_ = py_adjust(sx, step, L, True), py_adjust(exx, step, L, False)
            want = (r[0] + rs * r[2], r[0] + re_ * r[2], step * r[2])

            def wit(m):
                f = lambda k, t: 'absent' if k != 'int' else model_int(m, t)
                w = rwit(m, r, op='slice')
                w.update({'s': f(ks, sx), 'e': f(ke, exx), 't': f(kt, tx)})
                return w
            representable = z3.And(I32(want[0]), I32(want[1]), I32(want[2]), L <= I32_MAX)
            for v, p, m in outs:
                if v.variant == 'Ok':
                    got = v.fields[0]
                    g = tuple(got.fields[:3])
                    check_viol(sess, ob, p.conds, z3.Or(step == 0, z3.Not(py_range_eq(g, want))), [], wit)
                else:
                    # documented: error for step 0, or IntegerOverflow when a bound of the result does not fit i32
                    check_viol(sess, ob, p.conds, z3.And(step != 0, representable), [], wit)
            return finish(sess, ob, ex, outs, t1, wit)
        obs.append(guarded(sess, f'C01.range_slice[{ks},{ke},{kt}]', 'range(a,b,c)[s:e:t] is the same sequence as in Python, or the documented IntegerOverflow error when a bound of the result does not fit i32',
                           'every (i32, i32, non-zero i32) and every i32 / absent s, e, t', body))
    return obs


def ob_rem_range(sess):
    def body(ob, t1):
        ex = sess.executor(True, extra=EXTRA)
        mem = {}
        ref, r, rc = mk_range('r', mem)
        k = z3.Int('k')
        fn = ex.get_fn(sess.db.find_in_file('range_type.rs', 'rem_range_at_iter'))
        outs = ex.run(fn, [ref, k], Path(rc + [k >= 0, k < (1 << 64)]), mem=mem)
        ob.paths = len(outs)
        L = py_range_len(*r)
        wit = lambda m: rwit(m, r, op='iter', k=k)
        # iteration step k yields start + k*step while k < len; afterwards the remaining range is empty (or None)
        for v, p, m in outs:
            if v.variant == 'Some':
                g = v.fields[0].fields
                check_viol(sess, ob, p.conds, z3.And(k < L, z3.Or(g[0] != r[0] + k * r[2], py_range_len(g[0], g[1], g[2]) <= 0)), [], wit, {'note': 'wrong element'})
                check_viol(sess, ob, p.conds, z3.And(k >= L, py_range_len(g[0], g[1], g[2]) > 0), [], wit, {'note': 'iteration continues past the end'})
            else:
                check_viol(sess, ob, p.conds, k < L, [], wit, {'note': 'iteration stops early'})
        return finish(sess, ob, ex, outs, t1, wit)
    return guarded(sess, 'C01.range_iter', 'k-th iteration step of range(a,b,c) yields a + k*c exactly while k < len', 'every (i32, i32, non-zero i32), every k < 2^64', body)


def ob_convert_indices(sess):
    obs = []

    def body1(ob, t1):
        ex = sess.executor(True, extra=EXTRA)
        L, s = z3.Int('len'), z3.Int('start')
        fn = ex.get_fn(sess.db.find(r'^fn (?:[\w:]*::)?convert_index\(_1: i32, _2: i32\) -> usize'))
        outs = ex.run(fn, [L, s], Path([L >= 0, L <= I32_MAX, I32(s)]))
        ob.paths = len(outs)
        wit = lambda m: {'kind': 'clamp', 'len': model_int(m, L), 'start': model_int(m, s)}
        for v, p, m in outs:
            check_viol(sess, ob, p.conds, v != py_clamp_index(s, L), [], wit, prefer=[L <= 8])
        return finish(sess, ob, ex, outs, t1, wit)
    obs.append(guarded(sess, 'C01.syntax_convert_index', 'list.insert / index start normalisation = Python (negative from the end, clamped to [0, len])', 'every i32, every len in 0..2^31-1', body1))
    for ks, ke in itertools.product(('none', 'some'), repeat=2):
        def body2(ob, t1, ks=ks, ke=ke):
            ex = sess.executor(True, extra=EXTRA)
            L, s, e = z3.Int('len'), z3.Int('start'), z3.Int('end')
            fn = ex.get_fn(sess.db.find(r'^fn (?:[\w:]*::)?convert_indices\(_1: i32'))
            sa = SOME(s) if ks == 'some' else NONE()
            ea = SOME(e) if ke == 'some' else NONE()
            outs = ex.run(fn, [L, sa, ea], Path([L >= 0, L <= I32_MAX, I32(s), I32(e)]))
            ob.paths = len(outs)
            wit = lambda m: {'kind': 'clamp2', 'len': model_int(m, L), 'start': model_int(m, s) if ks == 'some' else None, 'end': model_int(m, e) if ke == 'some' else None}
            ws = py_clamp_index(s, L) if ks == 'some' else z3.IntVal(0)
            we = py_clamp_index(e, L) if ke == 'some' else L
            for v, p, m in outs:
                check_viol(sess, ob, p.conds, z3.Or(v.fields[0] != ws, v.fields[1] != we), [], wit, prefer=[L <= 8])
            return finish(sess, ob, ex, outs, t1, wit)
        obs.append(guarded(sess, f'C01.syntax_convert_indices[{ks},{ke}]', 'str.find/count/index start,end normalisation = Python', 'every i32 / None, every len in 0..2^31-1', body2))
    return obs


def run(sess):
    ob_convert_index(sess)
    ob_slice_indices(sess)
    ob_range_length(sess)
    ob_range_bool(sess)
    ob_range_at(sess)
    ob_range_in(sess)
    ob_range_eq(sess)
    ob_range_slice(sess)
    ob_rem_range(sess)
    ob_convert_indices(sess)
    from . import c01_slice
    c01_slice.run(sess)
    from . import c01_list
    c01_list.run(sess)
    from . import c01_str
    c01_str.run(sess)
    c01_str.run_index(sess)


META = {
    'explanation': 'C01 (kernel scope): index normalisation, slice bound computation, element selection of apply_slice and all range arithmetic '
                   '(length, truthiness, indexing, membership, equality, slicing, iteration step) are executed symbolically from MIR and compared '
                   'with CPython\'s algorithms for every argument value. Program-level agreement with the reference interpreter is NOT decided.',
    'bounds': 'every i32 / None / absent / non-int argument; every sequence length 0..2^31-1 for index arithmetic; element selection on slices of length <= 6 (quick) / 8 (thorough)',
    'outside': 'parser, scope resolution, IR and bytecode compilers, closures, comprehensions, string/list/dict methods, % and .format: the larger part of C01',
    'assumptions': ['documented deviations accepted: error when a length or a slice bound of a range does not fit i32; indices outside i32 are rejected with "too big to fit in i32"; list.pop rejects negative indices (documented in its doc comment); non-number in range is False'],
}


# ----------------------------------------------------------------------------- replay
def replay_witness(w, rp):
    k = w.get('kind')
    cases = []
    expect = None
    role = k
    if k == 'range':
        a, b, c = w['start'], w['stop'], w['step']
        r = range(a, b, c)
        op = w.get('op')
        role = f'range {op}'
        try:
            if op == 'len':
                cases = [{'kind': 'eval', 'program': f'len(range({a},{b},{c}))'}]
                expect = ('ok', str(len(r))) if len(r) <= I32_MAX else ('any', None)
            elif op == 'bool':
                cases = [{'kind': 'eval', 'program': f'bool(range({a},{b},{c}))'}]
                expect = ('ok', 'True' if len(r) else 'False')
            elif op == 'at':
                i = w['index']
                cases = [{'kind': 'eval', 'program': f'range({a},{b},{c})[{i}]'}]
                try:
                    expect = ('ok', str(r[i]))
                except IndexError:
                    expect = ('err', None)
            elif op == 'in':
                x = w['x']
                cases = [{'kind': 'eval', 'program': f'({x}) in range({a},{b},{c})'}]
                expect = ('ok', 'True' if x in r else 'False')
            elif op == 'eq':
                o = w['other']
                cases = [{'kind': 'eval', 'program': f'range({a},{b},{c}) == range({o[0]},{o[1]},{o[2]})'}]
                expect = ('ok', 'True' if r == range(*o) else 'False')
            elif op == 'slice':
                f = lambda v: '' if v == 'absent' else str(v)
                cases = [{'kind': 'eval', 'program': f'list(range({a},{b},{c})[{f(w["s"])}:{f(w["e"])}:{f(w["t"])}])[:50]'}]
                sl = slice(*[None if w[x] == 'absent' else w[x] for x in ('s', 'e', 't')])
                try:
                    expect = ('ok', str(list(r[sl][:50])))
                except ValueError:
                    expect = ('err', None)
            elif op == 'iter':
                k_ = w['k']
                cases = [{'kind': 'eval', 'program': f'[x for x in range({a},{b},{c})][:50]'}] if len(r) <= 100000 else []
                expect = ('ok', str(list(r[:50])))
        except OverflowError:
            expect = ('any', None)
    elif k == 'index':
        L, i = w['len'], w['index']
        if isinstance(L, int) and L <= 2000 and isinstance(i, int):
            cases = [{'kind': 'eval', 'program': f'list(range({L}))[{i}]'}, {'kind': 'eval', 'program': f'tuple(range({L}))[{i}]'}]
            try:
                expect = ('ok', str(list(range(L))[i]))
            except IndexError:
                expect = ('err', None)
        role = 'sequence index'
    elif k == 'slice':
        L = w.get('len')
        if isinstance(L, int) and L <= 2000:
            f = lambda v: '' if v in ('absent',) else str(v)
            if 'non-int' not in (w['start'], w['stop'], w['step']):
                sl = slice(*[None if w[x] in ('absent', 'None') else w[x] for x in ('start', 'stop', 'step')])
                prog = f'list(range({L}))[{f(w["start"])}:{f(w["stop"])}:{f(w["step"])}]'
                cases = [{'kind': 'eval', 'program': prog}, {'kind': 'eval', 'program': prog.replace('list(', 'tuple(', 1)}]
                try:
                    expect = ('ok', str(list(range(L))[sl]))
                except ValueError:
                    expect = ('err', None)
        role = 'slice'
    elif k in ('clamp', 'clamp2'):
        L = w.get('len')
        if isinstance(L, int) and L <= 2000:
            if k == 'clamp':
                s = w['start']
                cases = [{'kind': 'eval', 'program': f'x = list(range({L}))\nx.insert({s}, -1)\nx.index(-1)'}]
                xs = list(range(L))
                xs.insert(s, -1)
                expect = ('ok', str(xs.index(-1)))
            else:
                s, e = w['start'], w['end']
                args = ', '.join(str(v) if v is not None else 'None' for v in (s, e))
                t = 'a' * L
                cases = [{'kind': 'eval', 'program': f'(("a" * {L}).count("a", {args}), ("a" * {L}).count("", {args}), ("a" * {L}).find("", {args}), ("a" * {L}).rfind("", {args}))'}]
                expect = ('ok', str((t.count('a', s, e), t.count('', s, e), t.find('', s, e), t.rfind('', s, e))))
        role = 'index clamp'
    elif k == 'selection':
        from . import c01_slice
        return c01_slice.replay_witness(w, rp)
    elif k == 'str_index':
        i, L = w['index'], w['len']
        if not isinstance(L, int) or L > 2000:
            return {'reproduced': False, 'role': 'string index', 'detail': 'no small replay'}
        t = ''.join(chr(ord('a') + (n % 26)) for n in range(L))
        tu = ''.join(chr(0xe9 + (n % 5)) for n in range(L))
        cases = [{'kind': 'eval', 'program': 'x[i]', 'vars': {'x': {'str': t}, 'i': {'int': str(i)}}}, {'kind': 'eval', 'program': 'x[i]', 'vars': {'x': {'str': tu}, 'i': {'int': str(i)}}}]
        exps = []
        for s_ in (t, tu):
            try:
                exps.append(('ok', '"' + s_[i] + '"'))
            except IndexError:
                exps.append(('err', None))
        res = rp.run(cases, 'dev')
        repro = any(('panic' in g) or (e[0] == 'ok' and g.get('ok') != e[1]) or (e[0] == 'err' and 'err' not in g) for e, g in zip(exps, res))
        return {'reproduced': repro, 'role': 'string index', 'detail': f'len {L} [{i}] expected {exps}; native {str(res)[:200]}', 'cases': cases}
    elif k == 'str_window':
        from . import c01_str
        return c01_str.replay_witness(w, rp)
    elif k == 'list_index':
        from . import c01_list
        return c01_list.replay_witness(w, rp)
    if not cases or expect is None:
        return {'reproduced': False, 'role': role, 'detail': f'no small native replay for {w}'}
    got = {}
    repro = False
    for profile in ('dev', 'release'):
        res = rp.run(cases, profile)
        got[profile] = res
        for g in res:
            if 'panic' in g or 'abort' in g:
                repro = True
            elif expect[0] == 'ok':
                exp = expect[1]
                if g.get('ok') is None:
                    repro = True
                else:
                    gv = g['ok'].replace('(', '[').replace(')', ']').replace(',]', ']')
                    if gv != exp and g['ok'] != exp:
                        repro = True
            elif expect[0] == 'err' and 'err' not in g:
                repro = True
    return {'reproduced': repro, 'role': role, 'detail': f'expected {expect}; native {str(got)[:500]}', 'cases': cases}


# ----------------------------------------------------------------------------- translator validation (Serval-style)
def validate(sess, rp):
    """concrete vectors (the repository's own unit-test inputs plus a boundary grid) through the encoding and through the native build"""
    from . import c01_slice
    mism = []
    cases, meta = [], []
    f = lambda v: '' if v is None else str(v)
    # 1. sequence slicing through apply_slice
    ex = sess.executor(True, extra=c01_slice.SEQ + EXTRA)
    fn = ex.get_fn(sess.db.find(r'^fn (?:[\w:]*::)?apply_slice\(_1: &\[T\]'))
    grid = [None, -8, -7, -2, -1, 0, 1, 3, 6, 7, I32_MAX, I32_MIN]
    steps = [None, 1, -1, 2, -2, 3, -3, I32_MAX, I32_MIN]
    unit = [(7, -1, None, -1), (7, None, None, None), (7, 6, None, None), (7, -1, 10, None), (7, None, None, I32_MIN)]    # values/index.rs tests
    vecs = [(L, s, e, t) for L in (0, 1, 5, 6) for s in grid for e in grid for t in steps] + unit
    for L, s, e, t in vecs:
        if L > 6:
            xs_len = L
        mk = lambda v: Enum('None', [], 'Option') if v is None else SOME(Enum('Int', [z3.IntVal(v)], 'Value'))
        xs = Slice(z3.IntVal(L), [z3.IntVal(i) for i in range(L)], 'input')
        try:
            outs = ex.run(fn, [xs, mk(s), mk(e), mk(t)], Path())
        except Unsupported as ex_:
            mism.append(f'apply_slice({L},{s},{e},{t}): {ex_}')
            continue
        if len(outs) != 1:
            mism.append(f'apply_slice({L},{s},{e},{t}): {len(outs)} concrete paths')
            continue
        v, p, m = outs[0]
        enc = 'err' if v.variant == 'Err' else [z3.simplify(x).as_long() for x in ex.deref(m, v.fields[0]).elems]
        cases.append({'kind': 'eval', 'program': f'list(range({L}))[{f(s)}:{f(e)}:{f(t)}]'})
        meta.append((f'slice len={L} [{f(s)}:{f(e)}:{f(t)}]', 'err' if enc == 'err' else str(enc)))
    sess.absorb(ex)
    # 2. ranges: length, indexing, membership (range_type.rs unit-test inputs + boundary grid)
    ex = sess.executor(True, extra=EXTRA)
    fl = ex.get_fn(sess.db.find_in_file('range_type.rs', 'length', r'_1: &range_type::Range\)'))
    fa = ex.get_fn(sess.db.find_in_file('range_type.rs', 'at', r'_1: &range_type::Range'))
    fi = ex.get_fn(sess.db.find_in_file('range_type.rs', 'is_in', r'_1: &range_type::Range'))
    bgrid = [I32_MIN, I32_MIN + 1, -7, -1, 0, 1, 10, I32_MAX - 1, I32_MAX]
    sgrid = [I32_MIN, -1024, -3, -1, 1, 2, 10, I32_MAX]
    unit_r = [(0, 0, 1), (0, 17, 1), (10, 30, 1), (10, -30, 1), (0, I32_MAX, 1), (-1, I32_MAX, 1), (0, 10, 2), (0, 9, 2), (0, 10, -2), (10, 0, -2), (9, 0, -2), (4, 14, 10)]
    rvecs = unit_r + [(a, b, c) for a in bgrid for b in bgrid for c in sgrid]
    for a, b, c in rvecs:
        mem = {('h', 'r'): Struct([z3.IntVal(a), z3.IntVal(b), z3.IntVal(c)], 'Range')}
        outs = ex.run(fl, [Ref(('h', 'r'))], Path(), mem=mem)
        v = outs[0][0]
        enc = 'err' if v.variant == 'Err' else str(z3.simplify(v.fields[0]).as_long())
        cases.append({'kind': 'eval', 'program': f'len(range({a},{b},{c}))'})
        meta.append((f'len(range({a},{b},{c}))', enc))
        for idx in (0, -1, 5):
            outs = ex.run(fa, [Ref(('h', 'r')), Enum('Int', [z3.IntVal(idx)], 'Value'), Opaque('heap')], Path(), mem=mem)
            v = outs[0][0]
            enc = 'err' if v.variant == 'Err' else str(z3.simplify(v.fields[0].fields[0]).as_long())
            cases.append({'kind': 'eval', 'program': f'range({a},{b},{c})[{idx}]'})
            meta.append((f'range({a},{b},{c})[{idx}]', enc))
        for x in (a, b, a + c if I32_MIN <= a + c <= I32_MAX else 0):
            other = Struct([Enum('Int', [Enum('Small', [z3.IntVal(x)], 'StarlarkIntRef')], 'NumRef')], 'ValueNum')
            s2 = z3.Solver()
            outs = ex.run(fi, [Ref(('h', 'r')), other], Path(), mem=mem)
            val = None
            for v, p, m in outs:
                s2.push()
                for cnd in p.conds + ex.uf_defs:
                    s2.add(cnd)
                if s2.check() == z3.sat:
                    val = s2.model().eval(v.fields[0], model_completion=True)
                s2.pop()
            enc = 'True' if z3.is_true(val) else 'False'
            cases.append({'kind': 'eval', 'program': f'({x}) in range({a},{b},{c})'})
            meta.append((f'{x} in range({a},{b},{c})', enc))
    sess.absorb(ex)
    res = rp.run(cases, 'dev')
    n = 0
    for (what, enc), g in zip(meta, res):
        n += 1
        if enc == 'err':
            ok = 'err' in g
        else:
            ok = g.get('ok') == enc
        if not ok:
            mism.append(f'{what}: encoding says {enc}, native build says {str(g)[:120]}')
    from . import c01_str
    n2, m2 = c01_str.validate(rp)
    return n + n2, mism + m2
