"""C08, the binder: `ParametersSpec::collect_inline_impl` (fast path) and `collect_slow` (starlark/src/eval/runtime/params/spec.rs)
executed from MIR on a symbolic signature and a symbolic call:

  * signature: concrete length and concrete positions of `*args` / `**kwargs`; the kind of every regular parameter
    (required / optional / defaulted), the number of positional and of positional-only parameters are solver-chosen
    (inside the invariant `ParametersSpecBuilder` establishes);
  * call: concrete numbers of positional / named / *sequence / **mapping items; the NAMES of named arguments and the
    keys of the **mapping are solver-chosen (each may equal any parameter name or be unknown), values are tagged.

The data structures the binder uses (slots, SmallMap of kwargs, Dict, tuple, heap, symbol table) are contracts; the
binder's own control flow and index arithmetic (next_position, lowest_name duplicate detection, default filling, extra
argument detection) is the real MIR.  Every model of every return path is compared with the Python call rules."""
import itertools
import time
import z3

from .common import Obligation, Path, Enum, Struct, Ref, Opaque, Err, Slice, Unsupported, ret, OK, ERR, SOME, NONE, d, model_int
from .seq import ITER, mk, pending, materialise
from mirsym import exec as mexec
from mirsym.exec import SymEnum

PK = ['Required', 'Optional', 'Defaulted', 'Args', 'KWargs']


# ------------------------------------------------------------------------------------------- reference (Python rules)
def py_bind(sig, call):
    """sig: {'kinds': [...PK names], 'npos': int, 'nposonly': int}; parameter i is called i.
    call: {'pos': [v..], 'named': [(name, v)..], 'star': None|[v..], 'kw': None|[(name, v)..]}
    returns None (call fails) or the list of slot contents: value, ('tuple', [...]), ('dict', [(k, v)..]), or None (optional unset)"""
    kinds = sig['kinds']
    n = len(kinds)
    slots = [None] * n
    filled = [False] * n
    positional = list(call['pos']) + list(call['star'] or [])
    extra = []
    for j, v in enumerate(positional):
        if j < sig['npos']:
            slots[j] = v
            filled[j] = True
        else:
            extra.append(v)
    a = kinds.index('Args') if 'Args' in kinds else None
    k = kinds.index('KWargs') if 'KWargs' in kinds else None
    if extra and a is None:
        return None
    kw = []
    if any(not isstr for isstr in call.get('kw_is_str') or []):
        return None              # keywords must be strings
    if call.get('star') is not None and call.get('star_iterable') is False:
        return None              # argument after * must be an iterable
    if call.get('kw') is not None and call.get('kw_is_dict') is False:
        return None              # argument after ** must be a mapping
    allnamed = list(call['named']) + list(call['kw'] or [])
    seen = set()
    for name, v in allnamed:
        if name in seen:
            return None          # the same keyword twice (named + **mapping)
        seen.add(name)
        byname = name < n and kinds[name] in ('Required', 'Optional', 'Defaulted') and name >= sig['nposonly']
        if byname:
            if filled[name]:
                return None      # multiple values for the parameter
            slots[name] = v
            filled[name] = True
        else:
            if k is None:
                return None      # unexpected keyword
            kw.append((name, v))
    for i in range(n):
        if kinds[i] == 'Args':
            slots[i] = ('tuple', extra)
        elif kinds[i] == 'KWargs':
            slots[i] = ('dict', kw)
        elif not filled[i]:
            if kinds[i] == 'Required':
                return None
            slots[i] = ('default', i) if kinds[i] == 'Defaulted' else None
    return slots


# ------------------------------------------------------------------------------------------- contracts
def contracts(shape):
    n = shape['n']

    def h(name):
        return Ref(('h', name))

    def c_field(name):
        def f(ex, st, args, path, callee):
            return ret(st['mem'][('h', name)] if name in ('star', 'kwv') else h(name), path)
        return f

    def c_names_slice(ex, st, args, path, callee):
        return ret(st['mem'][('h', 'names')], path)

    def c_is_empty(ex, st, args, path, callee):
        v = d(ex, args[0])
        return ret(z3.BoolVal(len(v.elems) == 0), path)

    def name_of(ex, x):
        x = d(ex, x)
        while isinstance(x, Struct) and not z3.is_expr(x):
            x = d(ex, x.fields[0])
        return x

    def lookup(ex, st, path, nm, wrap_ref):
        """parameter lookup by name in `ParametersSpec.names`: regular parameters that are not positional-only"""
        out = []
        npo = shape['npo']
        none = []
        for i in shape['regular']:
            c = z3.And(nm == i, npo <= i)
            none.append(z3.Not(c))
            p = path.add(c)
            if ex.feasible(p.conds):
                if wrap_ref:
                    mem = dict(st['mem'])
                    ex._tmp = getattr(ex, '_tmp', 0) + 1
                    key = ('tmp', ex._tmp, 'idx')
                    mem[key] = z3.IntVal(i)
                    out.append(('ret', SOME(Ref(key)), p, mem))
                else:
                    out.append(('ret', SOME(z3.IntVal(i)), p))
        p = path.add(z3.And(none) if none else z3.BoolVal(True))
        if ex.feasible(p.conds):
            out.append(('ret', NONE(), p))
        return out

    def c_get_index(ex, st, args, path, callee):
        return lookup(ex, st, path, name_of(ex, args[0]), False)

    def c_get_hashed(ex, st, args, path, callee):
        return lookup(ex, st, path, name_of(ex, args[1]), True)

    def c_opaque(ex, st, args, path, callee):
        return ret(Opaque('x'), path)

    def c_second(ex, st, args, path, callee):
        return ret(args[1], path)

    def c_first(ex, st, args, path, callee):
        return ret(args[0], path)

    def c_first_val(ex, st, args, path, callee):
        return ret(d(ex, args[0]), path)

    def c_err(ex, st, args, path, callee):
        return ret(Err('function error', 'Error'), path)

    def c_vec_new(ex, st, args, path, callee):
        return ret(Slice(z3.IntVal(0), [], 'vec'), path)

    def c_vec_push(ex, st, args, path, callee):
        r = args[0]
        v = ex.read_ref(st['mem'], r)
        st2 = dict(st)
        st2['mem'] = dict(st['mem'])
        ex.write_ref(st2, r, Slice(z3.IntVal(len(v.elems) + 1), list(v.elems) + [args[-1] if len(args) == 2 else Struct([args[1], args[2]])], v.tag if hasattr(v, 'tag') else 'vec'))
        return [('ret', Struct([]), path, st2['mem'])]

    def c_vec_len(ex, st, args, path, callee):
        return ret(d(ex, args[0]).length, path)

    def c_map_insert(ex, st, args, path, callee):
        """SmallMap::insert_hashed(key, value): Some(old) when the key is present"""
        r = args[0]
        v = ex.read_ref(st['mem'], r)
        key = name_of(ex, args[1])
        out = []
        fresh = []
        for j, e in enumerate(v.elems):
            c = key == e.fields[0]
            fresh.append(z3.Not(c))
            p = path.add(c)
            if ex.feasible(p.conds):
                st2 = dict(st)
                st2['mem'] = dict(st['mem'])
                el = list(v.elems)
                el[j] = Struct([e.fields[0], args[2]])
                ex.write_ref(st2, r, Slice(v.length, el, 'map'))
                out.append(('ret', SOME(e.fields[1]), p, st2['mem']))
        p = path.add(z3.And(fresh) if fresh else z3.BoolVal(True))
        if ex.feasible(p.conds):
            st2 = dict(st)
            st2['mem'] = dict(st['mem'])
            ex.write_ref(st2, r, Slice(z3.IntVal(len(v.elems) + 1), list(v.elems) + [Struct([key, args[2]])], 'map'))
            out.append(('ret', NONE(), p, st2['mem']))
        return out

    def c_map_push(ex, st, args, path, callee):
        r = args[0]
        v = ex.read_ref(st['mem'], r)
        st2 = dict(st)
        st2['mem'] = dict(st['mem'])
        ex.write_ref(st2, r, Slice(z3.IntVal(len(v.elems) + 1), list(v.elems) + [Struct([name_of(ex, args[1]), args[2]])], 'map'))
        return [('ret', Struct([]), path, st2['mem'])]

    def flagged(ex, path, flag, yes, no):
        out = []
        for c, v in ((flag, yes), (z3.Not(flag), no)):
            p = path.add(c)
            if ex.feasible(p.conds):
                out.append(('ret', v, p))
        return out

    def c_iterate(ex, st, args, path, callee):
        """Value::iterate on the *argument: its items when it is iterable (solver-chosen flag), otherwise an error"""
        v = d(ex, args[0])
        if not (isinstance(v, Struct) and v.ty == 'StarSeq'):
            raise Unsupported(f'iterate on {v}')
        return flagged(ex, path, shape['star_iterable'], OK(mk([('val', x) for x in v.fields])), ERR(Err('not iterable', 'Error')))

    def c_dict_from_value(ex, st, args, path, callee):
        """DictRef::from_value on the **argument: Some when it is a dict (solver-chosen flag)"""
        v = d(ex, args[0])
        if not (isinstance(v, Struct) and v.ty == 'KwMap'):
            raise Unsupported(f'DictRef::from_value on {v}')
        return flagged(ex, path, shape['kw_is_dict'], SOME(v), NONE())

    def c_iter_hashed(ex, st, args, path, callee):
        v = d(ex, args[0])
        return ret(mk([('val', Struct([kk, vv])) for kk, vv in v.fields]), path)

    def c_string_value_new(ex, st, args, path, callee):
        """StringValue::new(key): Some iff the key is a string (the mapping keys carry a solver-chosen `is a string` flag)"""
        key = d(ex, args[0])
        flag = shape['isstr'].get(str(key))
        if flag is None:
            return ret(SOME(key), path)
        out = []
        for c, v in ((flag, SOME(key)), (z3.Not(flag), NONE())):
            p = path.add(c)
            if ex.feasible(p.conds):
                out.append(('ret', v, p))
        return out

    def c_split_at(ex, st, args, path, callee):
        v = ex.deref(st['mem'], args[0])
        mid = z3.simplify(args[1]) if z3.is_expr(args[1]) else args[1]
        out = []
        for c in range(len(v.elems) + 1):
            p = path.add(mid == c)
            if ex.feasible(p.conds):
                out.append(('ret', Struct([Slice(z3.IntVal(c), v.elems[:c], 'head'), Slice(z3.IntVal(len(v.elems) - c), v.elems[c:], 'tail')]), p))
        p = path.add(mid > len(v.elems))
        if ex.feasible(p.conds):
            ex.add_panic(p, f'split_at: mid > len ({len(v.elems)})', callee)
        return out

    def c_extend_from_slice(ex, st, args, path, callee):
        r = args[0]
        v = ex.read_ref(st['mem'], r)
        more = d(ex, args[1])
        st2 = dict(st)
        st2['mem'] = dict(st['mem'])
        ex.write_ref(st2, r, Slice(z3.IntVal(len(v.elems) + len(more.elems)), list(v.elems) + list(more.elems), 'vec'))
        return [('ret', Struct([]), path, st2['mem'])]

    def c_alloc_tuple(ex, st, args, path, callee):
        v = d(ex, args[1])
        return ret(Struct(list(v.elems), 'Tuple'), path)

    def c_dict_new(ex, st, args, path, callee):
        v = d(ex, args[0])
        return ret(Struct(list(v.elems), 'Dict'), path)

    def c_dict_default(ex, st, args, path, callee):
        return ret(Struct([], 'Dict'), path)

    def c_range_next(ex, st, args, path, callee):
        r = args[0]
        rg = ex.read_ref(st['mem'], r)
        lo, hi = rg.fields
        out = []
        p = path.add(lo < hi)
        if ex.feasible(p.conds):
            st2 = dict(st)
            st2['mem'] = dict(st['mem'])
            ex.write_ref(st2, r, Struct([z3.simplify(lo + 1), hi], rg.ty))
            out.append(('ret', SOME(lo), p, st2['mem']))
        p = path.add(z3.Not(lo < hi))
        if ex.feasible(p.conds):
            out.append(('ret', NONE(), p))
        return out

    def c_iter_mut(ex, st, args, path, callee):
        r = args[0]
        v = ex.deref(st['mem'], r)
        if not isinstance(r, Ref) or v.elems is None:
            raise Unsupported('iter_mut on a slice without identity')
        return ret(mk([('val', Ref(r.addr, r.path + (('elem', i),))) for i in range(len(v.elems))]), path)

    def c_get_unchecked(mut):
        def f(ex, st, args, path, callee):
            r = args[0]
            i = z3.simplify(args[1])
            if not z3.is_int_value(i):
                raise Unsupported('get_unchecked with symbolic index')
            i = i.as_long()
            v = ex.deref(st['mem'], r)
            if i >= len(v.elems):
                ex.add_panic(path, f'get_unchecked({i}) beyond length {len(v.elems)} (undefined behaviour)', callee)
                return []
            if isinstance(r, Ref):
                return ret(Ref(r.addr, r.path + (('elem', i),)), path)
            mem = dict(st['mem'])
            ex._tmp = getattr(ex, '_tmp', 0) + 1
            key = ('tmp', ex._tmp, 'elem')
            mem[key] = v.elems[i]
            return [('ret', Ref(key), path, mem)]
        return f

    def c_none(ex, st, args, path, callee):
        return ret(NONE(), path)

    own = [
        ('Option::default = None', r'^<(std::option::)?Option<.*> as Default>::default$', c_none),
        ('ArgumentsImpl::pos / named = the argument slices', r' as ArgumentsImpl<.*>>::pos$', c_field('pos')),
        ('ArgumentsImpl::named', r' as ArgumentsImpl<.*>>::named$', c_field('named')),
        ('ArgumentsImpl::names / ArgNames::names = the (symbol, string) pairs', r' as ArgumentsImpl<.*>>::names$', c_field('names')),
        ('ArgNames::names', r'^ArgNames::<.*>::names$', c_names_slice),
        ('ArgumentsImpl::args = the *sequence argument', r' as ArgumentsImpl<.*>>::args$', c_field('star')),
        ('ArgumentsImpl::kwargs = the **mapping argument', r' as ArgumentsImpl<.*>>::kwargs$', c_field('kwv')),
        ('[T]::is_empty', r'slice::<impl \[.*\]>::is_empty$', c_is_empty),
        ('ArgSymbol::get_index_from_param_spec = lookup in the names of parameters that are not positional-only', r'ArgSymbol>::get_index_from_param_spec::<', c_get_index),
        ('SymbolMap::get_hashed_string_value = the same lookup', r'^SymbolMap::<u32>::get_hashed_string_value$', c_get_hashed),
        ('ArgSymbol::small_hash / Hashed::hash = opaque', r'ArgSymbol>::small_hash$|^Hashed::<.*>::hash$', c_opaque),
        ('Hashed::new_unchecked(hash, key) = key', r'^Hashed::<.*>::new_unchecked$', c_second),
        ('Hashed::key = the key', r'^Hashed::<.*>::key$', c_first),
        ('intrinsics::unlikely = identity', r'^std::intrinsics::unlikely$', c_first),
        ('ValueLike::to_value = identity', r' as ValueLike<.*>>::to_value$', c_first_val),
        ('FunctionError -> Error / function_error! = an error token', r'^<arguments::FunctionError as Into<.*>>::into$|function_error_impl$', c_err),
        ('signature / String::clone / to_owned / keys / map / collect (error text only) = opaque', r'::signature$|^<std::string::String as Clone>::clone$|^<str as ToOwned>::to_owned$|^SmallMap::<.*>::keys$|small_map::Keys<.* as Iterator>::map::<| as Iterator>::collect::<Vec<std::string::String>>$|ValueTyped::<.*>::as_str$', c_opaque),
        ('Vec::new', r'^Vec::<.*>::new$', c_vec_new),
        ('Vec::push', r'^Vec::<.*>::push$', c_vec_push),
        ('Vec::len', r'^Vec::<.*>::len$', c_vec_len),
        ('Vec::is_empty', r'^Vec::<.*>::is_empty$', c_is_empty),
        ('<Vec<T> as Deref>::deref = the sequence', r'^<Vec<.*> as Deref>::deref$', c_first_val),
        ('SmallMap::with_capacity = empty map', r'^SmallMap::<.*>::with_capacity$', c_vec_new),
        ('SmallMap::insert_hashed = Some(old) iff the key is present', r'^SmallMap::<.*>::insert_hashed$', c_map_insert),
        ('SmallMap::insert_hashed_unique_unchecked = append', r'^SmallMap::<.*>::insert_hashed_unique_unchecked$', c_map_push),
        ('Value::iterate on the *argument = Ok(its items) iff it is iterable (flag)', r'^layout::value::Value::<.*>::iterate$', c_iterate),
        ('DictRef::from_value on the **argument = Some iff it is a dict (flag)', r'^DictRef::<.*>::from_value$', c_dict_from_value),
        ('<DictRef as Deref>::deref = the dict', r'^<DictRef<.*> as Deref>::deref$', c_first_val),
        ('Dict::iter_hashed = its (key, value) pairs in order', r'Dict::<.*>::iter_hashed', c_iter_hashed),
        ('StringValue::new(key) = Some iff the key is a string (flag per mapping key)', r'^ValueTyped::<.*StarlarkStr>::new$', c_string_value_new),
        ('[T]::split_at(mid): case split on mid', r'slice::<impl \[.*\]>::split_at$', c_split_at),
        ('Vec::extend_from_slice', r'^Vec::<.*>::extend_from_slice$', c_extend_from_slice),
        ('Heap::alloc_tuple = the tuple of the items', r'alloc_tuple$', c_alloc_tuple),
        ('coerce = identity', r'^coerce::<|::coerce::<', c_first_val),
        ('Dict::new(map) = the dict', r'Dict::<.*>::new$', c_dict_new),
        ('Dict::default = empty dict', r'Dict<.*> as Default>::default$', c_dict_default),
        ('Heap::alloc(dict) = the dict', r'Heap::<.*>::alloc::<', c_second),
        ('Range<usize>::into_iter = identity', r'^<std::ops::Range<usize> as IntoIterator>::into_iter$', c_first),
        ('Range<usize>::next', r'^<std::ops::Range<usize> as Iterator>::next$', c_range_next),
        ('[T]::iter_mut = references to the elements', r'slice::<impl \[.*\]>::iter_mut$', c_iter_mut),
        ('[T]::get_unchecked_mut (index must be in range)', r'slice::<impl \[.*\]>::get_unchecked_mut::<usize>$', c_get_unchecked(True)),
        ('[T]::get_unchecked (index must be in range)', r'slice::<impl \[.*\]>::get_unchecked::<usize>$', c_get_unchecked(False)),
    ]
    return own + ITER


# ------------------------------------------------------------------------------------------- shapes
def signature_shapes(nmax):
    """(n, index of *args or None, index of **kwargs or None): regular parameters first, *args, named-only, **kwargs last"""
    out = []
    for n in range(nmax + 1):
        for has_kw in (False, True):
            if has_kw and n == 0:
                continue
            body = n - (1 if has_kw else 0)
            for a in [None] + list(range(body)):
                out.append((n, a, n - 1 if has_kw else None))
    return out


def call_shapes(tier, n=0):
    """quick: <= 2 positional, <= 2 named, *seq / **map absent or of length <= 1.
    thorough: signatures of <= 2 parameters get <= 3 positional, <= 2 named, lengths <= 2; signatures of 3 parameters get
    <= 2 positional, <= 1 named, lengths <= 1 (measured: one 3-parameter signature with 2 named + a 1-key mapping already
    takes > 15 min of model enumeration on one core)"""
    if tier == 'quick':
        P, K, S, W = 2, 2, (None, 0, 1), (None, 0, 1)
    elif n >= 3:
        P, K, S, W = 2, 1, (None, 1), (None, 1)
    else:
        P, K, S, W = 3, 2, (None, 0, 1, 2), (None, 0, 1, 2)
    out = []
    for p in range(P + 1):
        for k in range(K + 1):
            for s in S:
                for w in W:
                    out.append((p, k, s, w))
    return out


def slot_repr(ex, m, model, v):
    v = ex.deref(m, v)
    if isinstance(v, Enum) and v.variant == 'None':
        return None
    if isinstance(v, Enum) and v.variant == 'Some':
        x = ex.deref(m, v.fields[0])
        if isinstance(x, Struct) and x.ty == 'Tuple':
            return ('tuple', [val(model, e) for e in x.fields])
        if isinstance(x, Struct) and x.ty == 'Dict':
            return ('dict', [(val(model, ex.deref(m, e).fields[0]), val(model, ex.deref(m, e).fields[1])) for e in x.fields])
        return val(model, x)
    return ('?', str(v))


def val(model, x):
    if z3.is_expr(x):
        r = model.eval(x, model_completion=True).as_long()
        return ('default', r - 500) if 500 <= r < 600 else r
    return ('?', str(x))


def run_shape(sess, ob, sig, call):
    n, a, k = sig
    P, K, S, W = call
    regular = [i for i in range(n) if i != a and i != k]
    ex = None
    kinds = [z3.Int(f'pk{i}') for i in range(n)]
    npos, npo = z3.Int('num_positional'), z3.Int('num_positional_only')
    conds = [npo >= 0, npo <= npos]
    for i in range(n):
        if i == a:
            conds.append(kinds[i] == 3)
        elif i == k:
            conds.append(kinds[i] == 4)
        else:
            conds += [kinds[i] >= 0, kinds[i] <= 2]
    first_special = min([x for x in (a, k) if x is not None], default=n)
    conds += [npos == a] if a is not None else [npos >= 0, npos <= first_special]
    an = [z3.Int(f'argname{j}') for j in range(K)]
    kn = [z3.Int(f'key{j}') for j in range(W or 0)]
    for x in an + kn:
        conds += [x >= 0, x <= n + 1] + [x != s_ for s_ in (a, k) if s_ is not None]
    conds += [z3.Distinct(*an)] if len(an) > 1 else []
    conds += [z3.Distinct(*kn)] if len(kn) > 1 else []
    ks = [z3.Bool(f'key{j}_is_str') for j in range(W or 0)]
    for j in range(W or 0):
        conds.append(z3.Implies(z3.Not(ks[j]), kn[j] == n + 1 - (j % 2)))      # a non-string key equals no name
    star_ok, kw_ok = z3.Bool('star_is_iterable'), z3.Bool('kw_is_dict')
    conds += [star_ok] if S is None else [z3.Implies(z3.Not(star_ok), z3.BoolVal(S == 0))]      # a non-iterable has no items
    conds += [kw_ok] if W is None else [z3.Implies(z3.Not(kw_ok), z3.BoolVal(W == 0))]
    shape = {'n': n, 'regular': regular, 'npo': npo, 'isstr': {str(kn[j]): ks[j] for j in range(W or 0)}, 'star_iterable': star_ok, 'kw_is_dict': kw_ok}
    ex = sess.executor(True, extra=contracts(shape))
    ex.max_depth = 40
    mexec.ENUMS['ParameterKind'] = PK
    pk = [SymEnum('ParameterKind', kinds[i], {0: z3.IntVal(500 + i)}) for i in range(n)]
    indices = Struct([npos, npo, SOME(z3.IntVal(a)) if a is not None else NONE(), SOME(z3.IntVal(k)) if k is not None else NONE()], 'DefParamIndices')
    mem = {
        ('h', 'spec'): Struct([Opaque('function_name'), Slice(z3.IntVal(n), pk, 'kinds'), Slice(z3.IntVal(n), [Opaque('name')] * n, 'param_names'), Opaque('names'), indices], 'ParametersSpec'),
        ('h', 'pos'): Slice(z3.IntVal(P), [z3.IntVal(100 + j) for j in range(P)], 'pos'),
        ('h', 'named'): Slice(z3.IntVal(K), [z3.IntVal(200 + j) for j in range(K)], 'named'),
        ('h', 'names'): Slice(z3.IntVal(K), [Struct([Struct([an[j]], 'Symbol'), an[j]]) for j in range(K)], 'names'),
        ('h', 'star'): NONE() if S is None else SOME(Struct([z3.IntVal(300 + j) for j in range(S)], 'StarSeq')),
        ('h', 'kwv'): NONE() if W is None else SOME(Struct([(kn[j], z3.IntVal(400 + j)) for j in range(W)], 'KwMap')),
        ('h', 'slots'): Slice(z3.IntVal(n), [NONE() for _ in range(n)], 'slots'),
        ('h', 'args'): Opaque('ArgumentsFull'),
    }
    fn = ex.get_fn(sess.db.find_in_file('params/spec.rs', 'collect_inline_impl'))
    outs = ex.run(fn, [Ref(('h', 'spec')), Ref(('h', 'args')), Ref(('h', 'slots')), Opaque('heap')], Path(conds), mem=mem)
    ob.paths += len(outs)
    allv = kinds + [npos, npo] + an + kn + ks + [star_ok, kw_ok]
    inst = 0
    for v, p, m in outs:
        blocked = []
        while True:
            r, model = sess.decide(ob, list(p.conds) + blocked)
            if r == 'unknown':
                ob.inconclusive('solver unknown')
                break
            if r != 'sat':
                break
            vals = [model_int(model, t) for t in allv]
            blocked.append(z3.Or([t != x for t, x in zip(allv, vals)]))
            inst += 1
            kv = vals[:n]
            s = {'kinds': [PK[x] for x in kv], 'npos': vals[n], 'nposonly': vals[n + 1]}
            anv = vals[n + 2:n + 2 + K]
            knv = vals[n + 2 + K:n + 2 + K + (W or 0)]
            ksv = vals[n + 2 + K + (W or 0):-2]
            sok, kok = bool(vals[-2]), bool(vals[-1])
            c = {'pos': [100 + j for j in range(P)], 'named': [(anv[j], 200 + j) for j in range(K)],
                 'star': None if S is None else [300 + j for j in range(S)], 'kw': None if W is None else [(knv[j], 400 + j) for j in range(W)],
                 'kw_is_str': [bool(x) for x in ksv], 'star_iterable': sok, 'kw_is_dict': kok}
            want = py_bind(s, c)
            if v.variant == 'Ok':
                sl = ex.deref(m, m[('h', 'slots')])
                got = [slot_repr(ex, m, model, e) for e in sl.elems]
            else:
                got = None
            if got != want:
                ob.fail({'kind': 'bind', 'sig': s, 'call': c, 'code': got, 'reference': want})
                if len(ob.witnesses) > 8:
                    break
    for pn in ex.panics:
        sess.panic_edges_checked += 1
        r, model = sess.decide(ob, pn.conds)
        if r == 'sat':
            vals = [model_int(model, t) for t in allv]
            ob.fail({'kind': 'bind', 'sig': {'kinds': [PK[x] for x in vals[:n]], 'npos': vals[n], 'nposonly': vals[n + 1]}, 'panic': pn.msg, 'code': 'panic', 'reference': 'no panic',
                     'call': {'pos': [100 + j for j in range(P)], 'named': [(x, 200 + j) for j, x in enumerate(vals[n + 2:n + 2 + K])], 'star': None if S is None else [300 + j for j in range(S)],
                              'kw': None if W is None else [(x, 400 + j) for j, x in enumerate(vals[n + 2 + K:n + 2 + K + (W or 0)])], 'kw_is_str': [bool(x) for x in vals[n + 2 + K + (W or 0):-2]], 'star_iterable': bool(vals[-2]), 'kw_is_dict': bool(vals[-1])}})
    sess.absorb(ex)
    return inst


# ------------------------------------------------------------------------------------------- the signature builder
def builder_contracts():
    def c_vec_new(ex, st, args, path, callee):
        return ret(Slice(z3.IntVal(0), [], 'vec'), path)

    def c_vec_push(ex, st, args, path, callee):
        r = args[0]
        v = ex.read_ref(st['mem'], r)
        st2 = dict(st)
        st2['mem'] = dict(st['mem'])
        ex.write_ref(st2, r, Slice(z3.IntVal(len(v.elems) + 1), list(v.elems) + [args[1]], 'vec'))
        return [('ret', Struct([]), path, st2['mem'])]

    def c_vec_len(ex, st, args, path, callee):
        return ret(d(ex, args[0]).length, path)

    def c_first_val(ex, st, args, path, callee):
        return ret(d(ex, args[0]), path)

    def c_map_insert(ex, st, args, path, callee):
        r = args[0]
        v = ex.read_ref(st['mem'], r)
        key = d(ex, args[1])
        for e in v.elems:
            if z3.is_true(z3.simplify(e.fields[0] == key)):
                return ret(SOME(e.fields[1]), path)
        st2 = dict(st)
        st2['mem'] = dict(st['mem'])
        ex.write_ref(st2, r, Slice(z3.IntVal(len(v.elems) + 1), list(v.elems) + [Struct([key, args[2]])], 'map'))
        return [('ret', NONE(), path, st2['mem'])]

    def c_unzip(ex, st, args, path, callee):
        v = d(ex, args[0])
        items = pending(v) if isinstance(v, Struct) and v.ty == 'SeqIter' else [('val', e) for e in v.elems]
        pairs = [d(ex, it[1]) for it in items]
        return ret(Struct([Slice(z3.IntVal(len(pairs)), [p.fields[0] for p in pairs], 'names'), Slice(z3.IntVal(len(pairs)), [p.fields[1] for p in pairs], 'kinds')]), path)

    def c_vec_into_iter(ex, st, args, path, callee):
        v = d(ex, args[0])
        return ret(mk([('val', e) for e in v.elems]), path)
    return [
        ('Vec::with_capacity / SymbolMap::with_capacity = empty', r'^Vec::<.*>::with_capacity$|^SymbolMap::<.*>::with_capacity$', c_vec_new),
        ('Vec::push', r'^Vec::<.*>::push$', c_vec_push),
        ('Vec::len', r'^Vec::<.*>::len$', c_vec_len),
        ('str::to_owned = the name', r'^<str as ToOwned>::to_owned$', c_first_val),
        ('SymbolMap::insert(name, index) = None for a new name', r'^SymbolMap::<u32>::insert$', c_map_insert),
        ('Vec::into_iter (by value)', r'^<Vec<.*> as IntoIterator>::into_iter$', c_vec_into_iter),
        ('Iterator::unzip = the two columns', r' as Iterator>::unzip::<', c_unzip),
        ('Vec::into_boxed_slice = the sequence', r'^Vec::<.*>::into_boxed_slice$', c_first_val),
    ] + ITER


def run_builder(sess, ob, po, pn, has_args, no, has_kwargs):
    """new_parts' sequence of builder calls (its loops over the caller's iterators are replayed here call by call) for
    `po` positional-only, `pn` positional-or-named, `no` named-only parameters; every parameter kind solver-chosen.
    The finished spec must be the one the binder obligations assume."""
    mexec.ENUMS['ParameterKind'] = PK
    mexec.ENUMS['ParametersSpecParam'] = ['Required', 'Optional', 'Defaulted']
    mexec.ENUMS['CurrentParameterStyle'] = ['PosOnly', 'PosOrNamed', 'NamedOnly', 'NoMore']
    ex = sess.executor(True, extra=builder_contracts())
    ex.max_depth = 40
    total = po + pn + no
    kinds = [z3.Int(f'bk{i}') for i in range(total)]
    conds = []
    for kx in kinds:
        conds += [kx >= 0, kx <= 2]
    B = ('h', 'builder')

    def F(name, pat=None):
        return ex.get_fn(sess.db.find_in_file('params/spec.rs', name, pat))
    wc = F('with_capacity', r'_1: std::string::String, _2: usize')
    states = [(Path(conds), {})]

    def step(states, fn, mkargs):
        out = []
        for p, m in states:
            for v, p2, m2 in ex.run(fn, mkargs(m), p, mem=m):
                out.append((p2, m2, v))
        return out
    # with_capacity returns the builder by value
    st2 = []
    for p, m, v in step(states, wc, lambda m: [Opaque('function_name'), z3.IntVal(total + has_args + has_kwargs)]):
        m = dict(m)
        m[B] = v
        st2.append((p, m))
    states = st2
    seq = []
    idx = 0
    for _ in range(po):
        seq.append(('param', idx))
        idx += 1
    seq.append(('no_more_positional_only_args', None))
    for _ in range(pn):
        seq.append(('param', idx))
        idx += 1
    seq.append(('args' if has_args else 'no_more_positional_args', None))
    for _ in range(no):
        seq.append(('param', idx))
        idx += 1
    if has_kwargs:
        seq.append(('kwargs', None))
    pfn = F('param', r'_3: ParametersSpecParam<V>')
    for name, i in seq:
        if name == 'param':
            fn = pfn
            arg = lambda m, i=i: [Ref(B), z3.IntVal(1000 + i), SymEnum('ParametersSpecParam', kinds[i], {0: z3.IntVal(500 + i)})]
        else:
            fn = F(name, r'_1: &mut ParametersSpecBuilder<V>\)')
            arg = lambda m: [Ref(B)]
        states = [(p, m) for p, m, v in step(states, fn, arg)]
    fin = F('finish', r'_1: ParametersSpecBuilder<V>\)')
    finals = []
    for p, m in states:
        for v, p2, m2 in ex.run(fin, [m[B]], p, mem=m):
            finals.append((v, p2, m2))
    ob.paths += len(finals)
    # expected layout
    order = list(range(po + pn)) + (['*'] if has_args else []) + list(range(po + pn, total)) + (['**'] if has_kwargs else [])
    exp_npos, exp_npo = po + pn, po
    exp_args = order.index('*') if has_args else None
    exp_kwargs = order.index('**') if has_kwargs else None
    exp_names = {1000 + j: order.index(j) for j in range(total) if j >= po}
    inst = 0
    for v, p, m in finals:
        spec = ex.deref(m, v)
        f = [ex.deref(m, x) for x in spec.fields]
        kinds_sl, names_sl, names_map, ind = f[1], f[2], f[3], f[4]
        checks = []
        got_layout = []
        for e in kinds_sl.elems:
            e = ex.deref(m, e)
            got_layout.append(e)
        if len(got_layout) != len(order):
            ob.fail({'kind': 'builder', 'shape': [po, pn, has_args, no, has_kwargs], 'what': f'{len(got_layout)} parameter kinds for {len(order)} parameters'})
            continue
        viol = []
        for pos, (e, o) in enumerate(zip(got_layout, order)):
            if o == '*' or o == '**':
                okk = isinstance(e, Enum) and e.variant == ('Args' if o == '*' else 'KWargs')
                if not okk:
                    viol.append(z3.BoolVal(True))
            else:
                # Required -> Required, Optional -> Optional, Defaulted(x) -> Defaulted(x)
                if isinstance(e, SymEnum):
                    viol.append(e.tag != kinds[o])
                elif isinstance(e, Enum):
                    viol.append(kinds[o] != PK.index(e.variant))
                    if e.variant == 'Defaulted':
                        viol.append(ex.deref(m, e.fields[0]) != 500 + o)
                else:
                    viol.append(z3.BoolVal(True))
        indf = [ex.deref(m, x) for x in ind.fields]
        viol += [indf[0] != exp_npos, indf[1] != exp_npo]
        for got, want in ((indf[2], exp_args), (indf[3], exp_kwargs)):
            if want is None:
                viol.append(z3.BoolVal(not (isinstance(got, Enum) and got.variant == 'None')))
            else:
                viol.append(z3.BoolVal(True) if not (isinstance(got, Enum) and got.variant == 'Some') else ex.deref(m, got.fields[0]) != want)
        gotmap = {}
        for e in names_map.elems:
            k_ = z3.simplify(e.fields[0])
            v_ = z3.simplify(e.fields[1])
            gotmap[k_.as_long()] = v_.as_long() if z3.is_int_value(v_) else str(v_)
        viol.append(z3.BoolVal(gotmap != exp_names))
        r, model = sess.decide(ob, list(p.conds) + [z3.Or(viol)])
        inst += 1
        if r == 'sat':
            ob.fail({'kind': 'builder', 'shape': [po, pn, has_args, no, has_kwargs], 'kinds': [PK[model_int(model, kx)] for kx in kinds],
                     'what': f'finished spec differs from the layout the binder relies on: indices {[str(z3.simplify(model.eval(x, model_completion=True))) if z3.is_expr(x) else str(x) for x in indf]}, names {gotmap}; expected num_positional={exp_npos}, num_positional_only={exp_npo}, args={exp_args}, kwargs={exp_kwargs}, names {exp_names}'})
        elif r == 'unknown':
            ob.inconclusive('solver unknown')
    for pn_ in ex.panics:
        sess.panic_edges_checked += 1
        r, model = sess.decide(ob, pn_.conds)
        if r == 'sat':
            ob.fail({'kind': 'builder', 'shape': [po, pn, has_args, no, has_kwargs], 'kinds': [PK[model_int(model, kx)] for kx in kinds], 'what': 'panic: ' + pn_.msg, 'panic': pn_.msg})
    sess.absorb(ex)
    return inst


# ------------------------------------------------------------------------------------------- can_fill_with_args
def run_can_fill(sess, ob, sig, P, K):
    """`ParametersSpec::can_fill_with_args(pos, names)` answers true exactly when a call with `pos` positional arguments and the
    (pairwise different) named arguments `names` binds under the Python rules"""
    n, a, k = sig
    regular = [i for i in range(n) if i != a and i != k]
    kinds = [z3.Int(f'pk{i}') for i in range(n)]
    npos, npo = z3.Int('num_positional'), z3.Int('num_positional_only')
    conds = [npo >= 0, npo <= npos]
    for i in range(n):
        conds += [kinds[i] == 3] if i == a else [kinds[i] == 4] if i == k else [kinds[i] >= 0, kinds[i] <= 2]
    first_special = min([x for x in (a, k) if x is not None], default=n)
    conds += [npos == a] if a is not None else [npos >= 0, npos <= first_special]
    an = [z3.Int(f'argname{j}') for j in range(K)]
    for x in an:
        conds += [x >= 0, x <= n + 1] + [x != s_ for s_ in (a, k) if s_ is not None]
    conds += [z3.Distinct(*an)] if len(an) > 1 else []
    shape = {'n': n, 'regular': regular, 'npo': npo, 'isstr': {}, 'star_iterable': z3.BoolVal(True), 'kw_is_dict': z3.BoolVal(True)}

    def c_from_elem(ex, st, args, path, callee):
        cnt = z3.simplify(args[1])
        if not z3.is_int_value(cnt):
            raise Unsupported('vec![x; n] with symbolic n')
        return ret(Slice(cnt, [args[0]] * cnt.as_long(), 'vec'), path)

    def c_index(ex, st, args, path, callee):
        r = args[0]
        i = z3.simplify(args[1])
        v = ex.deref(st['mem'], r)
        if not z3.is_int_value(i) or not isinstance(r, Ref):
            raise Unsupported('Vec index with symbolic index')
        if i.as_long() >= len(v.elems):
            ex.add_panic(path, f'index {i} out of bounds (len {len(v.elems)})', callee)
            return []
        return ret(Ref(r.addr, r.path + (('elem', i.as_long()),)), path)
    extra = [('vec![x; n] = n copies', r'^std::vec::from_elem::<', c_from_elem),
             ('<Vec<T> as Index/IndexMut<usize>>::index = the element (bounds checked)', r'^<Vec<.*> as (std::ops::)?Index(Mut)?<usize>>::index(_mut)?$', c_index),
             ('SymbolMap::get_str = lookup among the parameters that are not positional-only', r'^SymbolMap::<u32>::get_str$',
              lambda ex, st, args, path, callee: [c for c in contracts(shape) if c[0].startswith('SymbolMap::get_hashed_string_value')][0][2](ex, st, args, path, callee))]
    ex = sess.executor(True, extra=extra + contracts(shape))
    ex.max_depth = 40
    mexec.ENUMS['ParameterKind'] = PK
    pk = [SymEnum('ParameterKind', kinds[i], {0: z3.IntVal(500 + i)}) for i in range(n)]
    indices = Struct([npos, npo, SOME(z3.IntVal(a)) if a is not None else NONE(), SOME(z3.IntVal(k)) if k is not None else NONE()], 'DefParamIndices')
    mem = {('h', 'spec'): Struct([Opaque('function_name'), Slice(z3.IntVal(n), pk, 'kinds'), Slice(z3.IntVal(n), [Opaque('name')] * n, 'param_names'), Opaque('names'), indices], 'ParametersSpec'),
           ('h', 'names'): Slice(z3.IntVal(K), list(an), 'names')}
    fn = ex.get_fn(sess.db.find_in_file('params/spec.rs', 'can_fill_with_args_impl'))
    outs = ex.run(fn, [Ref(('h', 'spec')), z3.IntVal(P), Ref(('h', 'names'))], Path(conds), mem=mem)
    ob.paths += len(outs)
    allv = kinds + [npos, npo] + an
    inst = 0
    for v, p, m in outs:
        blocked = []
        while True:
            r, model = sess.decide(ob, list(p.conds) + blocked)
            if r == 'unknown':
                ob.inconclusive('solver unknown')
                break
            if r != 'sat':
                break
            vals = [model_int(model, t) for t in allv]
            blocked.append(z3.Or([t != x for t, x in zip(allv, vals)]))
            inst += 1
            s = {'kinds': [PK[x] for x in vals[:n]], 'npos': vals[n], 'nposonly': vals[n + 1]}
            c = {'pos': [100 + j for j in range(P)], 'named': [(vals[n + 2 + j], 200 + j) for j in range(K)], 'star': None, 'kw': None}
            want = py_bind(s, c) is not None
            got = model.eval(v, model_completion=True) if z3.is_expr(v) else v
            got = bool(z3.is_true(got)) if z3.is_expr(got) else got
            if got != want:
                ob.fail({'kind': 'can_fill', 'sig': s, 'call': c, 'code': got, 'reference': want})
                if len(ob.witnesses) > 8:
                    break
    for pn in ex.panics:
        sess.panic_edges_checked += 1
        r, model = sess.decide(ob, pn.conds)
        if r == 'sat':
            vals = [model_int(model, t) for t in allv]
            ob.fail({'kind': 'can_fill', 'sig': {'kinds': [PK[x] for x in vals[:n]], 'npos': vals[n], 'nposonly': vals[n + 1]}, 'panic': pn.msg, 'code': 'panic', 'reference': 'no panic',
                     'call': {'pos': [100 + j for j in range(P)], 'named': [(vals[n + 2 + j], 200 + j) for j in range(K)], 'star': None, 'kw': None}})
    sess.absorb(ex)
    return inst
