"""C09 — equality, hashing and ordering are coherent (numeric tower) (DESIGN.md §5-C09).

The StarlarkValue methods equals / compare / get_hash / write_hash of the three numeric
representations (inline int = PointerI32, StarlarkBigInt, StarlarkFloat) are executed from
MIR, each dispatched from its own type as the vtable would (impl method if present, else the
trait default), down through NumRef, StarlarkIntRef, compare_impl, float_hash, hash_64 and the
starlark_map hasher.  Bit-vector mode: i32 = BitVec 32, f64 = IEEE double, big int = 128-bit."""
import itertools
import re
import struct
import time
import z3

from .common import (Session, Obligation, Path, Enum, Struct, Ref, Big, Opaque, Unsupported, ret, SOME, NONE, d,
                     model_signed, model_f64_bits, I32_MIN, I32_MAX)
from mirsym.contracts import ordering_term, F64

CRATES = ('starlark_map', 'starlark')
KINDS = ('S', 'B', 'F')
KNAME = {'S': 'inline int', 'B': 'big int', 'F': 'float'}
FILES = {'S': 'pointer_i32.rs', 'B': 'bigint.rs', 'F': 'float/float.rs'}
RECV = {'S': r'_1: &PointerI32', 'B': r'_1: &StarlarkBigInt', 'F': r'_1: &StarlarkFloat'}
BIGW = 128


# ----------------------------------------------------------------------------- property-specific contracts
def c_ptr_get(ex, st, args, path, callee):
    return ret(d(ex, args[0]), path)


def c_unpack_num(ex, st, args, path, callee):
    v = args[0]
    if isinstance(v, Struct) and v.ty == 'ValueNum':
        return ret(SOME(v.fields[0]), path)
    raise Unsupported(f'unpack_num of {v}')


def c_unpack_inline_int(ex, st, args, path, callee):
    v = args[0]
    if isinstance(v, Struct) and v.ty == 'ValueNum':
        n = v.fields[0]
        if n.variant == 'Int' and n.fields[0].variant == 'Small':
            return ret(SOME(n.fields[0].fields[0]), path)
        return ret(NONE(), path)
    raise Unsupported(f'unpack_inline_int of {v}')


def c_unpack_intref(ex, st, args, path, callee):
    v = args[0]
    if isinstance(v, Struct) and v.ty == 'ValueNum':
        n = v.fields[0]
        return ret(SOME(n.fields[0]) if n.variant == 'Int' else NONE(), path)
    raise Unsupported(f'StarlarkIntRef::unpack of {v}')


def c_downcast(ex, st, args, path, callee):
    """Value::downcast_ref::<T>() on the operand datatype"""
    v = args[0]
    mm = re.search(r'downcast_ref::<(?:[\w:]*::)?(\w+)>$', callee)
    if isinstance(v, Struct) and v.ty == 'ValueNum' and mm:
        n = v.fields[0]
        t = mm.group(1)
        if t == 'StarlarkBigInt':
            return ret(SOME(n.fields[0].fields[0]) if (n.variant == 'Int' and n.fields[0].variant == 'Big') else NONE(), path)
        if t == 'StarlarkFloat':
            if n.variant == 'Float':
                mem = dict(st['mem'])
                ex._tmp = getattr(ex, '_tmp', 0) + 1
                key = ('tmp', ex._tmp, 'f')
                mem[key] = Struct([n.fields[0]], 'StarlarkFloat')
                return [('ret', SOME(Ref(key)), path, mem)]
            return ret(NONE(), path)
        return ret(NONE(), path)
    raise Unsupported(f'downcast_ref {callee} of {v}')


HASHER_DEFAULTS = {'write_i8': ('write_u8', 'u8'), 'write_i16': ('write_u16', 'u16'), 'write_i32': ('write_u32', 'u32'), 'write_i64': ('write_u64', 'u64'),
                   'write_isize': ('write_usize', 'usize'), 'write_i128': ('write_u128', 'u128')}


def c_hasher_method(ex, st, args, path, callee):
    """<StarlarkHasher / Fx64Hasher as Hasher>::m: the repository impl if it defines m, else std's default (write_iN = write_uN(i as uN))"""
    mm = re.match(r'^<(?:[\w:]*::)?(StarlarkHasher|Fx64Hasher) as (?:std::hash::)?Hasher>::(\w+)$', callee) or re.match(r'^(StarlarkHasher|Fx64Hasher)::(\w+)$', callee)
    ty, meth = mm.group(1), mm.group(2)
    file = 'hasher.rs' if ty == 'StarlarkHasher' else 'fx64.rs'
    ms = ex.db.find_in_file(file, meth, rf'_1: &(?:mut )?{ty}', unique=False)
    if ms:
        return [('ret', v, p, m2) for v, p, m2 in ex.run(ex.get_fn(ms[0]), args, path, 1, (), st['mem'])]
    if meth in HASHER_DEFAULTS:
        um, uty = HASHER_DEFAULTS[meth]
        from mirsym.exec import INT_TY
        x = args[1]
        w = INT_TY[uty][0]
        if z3.is_bv(x) and x.size() != w:
            raise Unsupported('hasher default width')
        return ex.call(st, f'<{ty} as Hasher>::{um}', [args[0], x], path, 1)
    raise Unsupported(f'Hasher method {meth} of {ty}')


def c_option_eq(ex, st, args, path, callee):
    a, b = d(ex, args[0]), d(ex, args[1])
    if a.variant != b.variant:
        return ret(z3.BoolVal(False), path)
    if a.variant == 'None':
        return ret(z3.BoolVal(True), path)
    mm = re.match(r'^<(?:std::option::)?Option<(.+)> as PartialEq>::eq$', callee)
    inner = mm.group(1)
    mem = dict(st['mem'])
    ex._tmp = getattr(ex, '_tmp', 0) + 1
    ka, kb = ('tmp', ex._tmp, 'a'), ('tmp', ex._tmp, 'b')
    mem[ka], mem[kb] = a.fields[0], b.fields[0]
    st2 = dict(st)
    st2['mem'] = mem
    return ex.call(st2, f'<{inner} as PartialEq>::eq', [Ref(ka), Ref(kb)], path, 1)


def c_self_dispatch(ex, st, args, path, callee):
    """`<Self as StarlarkValue>::m` inside a trait-default body: resolve as the vtable would"""
    kind = st.get('self_ty')
    meth = callee.split('::')[-1]
    m = find_method(ex.db, kind, meth)
    if m is None:
        m = ex.db.find(rf'^fn (?:[\w:]*::)?StarlarkValue::{meth}\(')
        ex.next_self_ty = kind
    return [('ret', v, p, mm) for v, p, mm in ex.run(ex.get_fn(m), args, path, 1, (), st['mem'])]


def c_hash_u64(ex, st, args, path, callee):
    """<u64 as Hash>::hash::<H>(&u64, &mut H) = H::write_u64 (std); the repository's hasher code is executed"""
    v = d(ex, args[0])
    return ex.call(st, 'StarlarkHasher::write_u64', [args[1], v], path, 1)


def c_hasher_write_u64(ex, st, args, path, callee):
    m = ex.db.find_in_file('hasher.rs', 'write_u64', r'_1: &mut StarlarkHasher')
    return [('ret', v, p, mm) for v, p, mm in ex.run(ex.get_fn(m), args, path, 1, (), st['mem'])]


def c_fx_write_u64(ex, st, args, path, callee):
    m = ex.db.find_in_file('fx64.rs', 'write_u64', r'_1: &mut Fx64Hasher')
    return [('ret', v, p, mm) for v, p, mm in ex.run(ex.get_fn(m), args, path, 1, (), st['mem'])]


def c_fx_finish(ex, st, args, path, callee):
    m = ex.db.find_in_file('fx64.rs', 'finish', r'_1: &Fx64Hasher')
    return [('ret', v, p, mm) for v, p, mm in ex.run(ex.get_fn(m), args, path, 1, (), st['mem'])]


def c_hasher_finish(ex, st, args, path, callee):
    m = ex.db.find_in_file('hasher.rs', 'finish', r'_1: &StarlarkHasher')
    return [('ret', v, p, mm) for v, p, mm in ex.run(ex.get_fn(m), args, path, 1, (), st['mem'])]


def c_fx_default(ex, st, args, path, callee):
    m = ex.db.find_in_file('fx64.rs', 'default')
    return [('ret', v, p, mm) for v, p, mm in ex.run(ex.get_fn(m), args, path, 1, (), st['mem'])]


def c_hasher_default(ex, st, args, path, callee):
    m = ex.db.find_in_file('hasher.rs', 'default', r'-> StarlarkHasher \{')
    return [('ret', v, p, mm) for v, p, mm in ex.run(ex.get_fn(m), args, path, 1, (), st['mem'])]


def c_smaller_than_i32(ex, st, args, path, callee):
    m = ex.db.find_in_file('inline_int.rs', 'smaller_than_i32')
    return [('ret', v, p, mm) for v, p, mm in ex.run(ex.get_fn(m), args, path, 1, (), st['mem'])]


EXTRA = [
    ('PointerI32::get = the tagged pointer is the int (receiver plumbing)', r'^(pointer_i32::)?PointerI32::get$', c_ptr_get),
    ('Value::unpack_num = the other operand\'s NumRef (receiver plumbing)', r'Value::<.*>::unpack_num$', c_unpack_num),
    ('Value::unpack_inline_int = the other operand if it is an inline int (receiver plumbing)', r'Value::<.*>::unpack_inline_int$', c_unpack_inline_int),
    ('StarlarkIntRef::unpack(Value) = the other operand if it is an int (receiver plumbing)', r'StarlarkIntRef::<.*>::unpack(_value_opt)?$|^<StarlarkIntRef<.*> as UnpackValue<.*>>::unpack_value_opt$', c_unpack_intref),
    ('Value::downcast_ref::<StarlarkBigInt|StarlarkFloat> on the operand datatype (receiver plumbing)', r'Value::<.*>::downcast_ref::<.*>$', c_downcast),
    ('Option<T> == Option<T> (std derive) via T::eq', r'^<(std::option::)?Option<.+> as PartialEq>::eq$', c_option_eq),
    ('vtable dispatch of <Self as StarlarkValue>::m', r'^<Self as StarlarkValue<.*>>::\w+$', c_self_dispatch),
    ('<u64 as Hash>::hash = Hasher::write_u64', r'^<u64 as (std::hash::)?Hash>::hash::<', c_hash_u64),
    ('Hasher methods of StarlarkHasher / Fx64Hasher: repository impl, else std default (write_iN = write_uN)', r'^<(?:[\w:]*::)?(StarlarkHasher|Fx64Hasher) as (std::hash::)?Hasher>::\w+$|^StarlarkHasher::write_u64$', c_hasher_method),
    ('Default for Fx64Hasher -> repository derive', r'^<(fx64::)?Fx64Hasher as Default>::default$', c_fx_default),
    ('Default for StarlarkHasher -> repository derive', r'^<StarlarkHasher as Default>::default$', c_hasher_default),
]


def find_method(db, kind, meth):
    ms = db.find_in_file(FILES[kind], meth, RECV[kind], unique=False)
    ms = [m for m in ms if re.search(rf'>::{meth}\(', m.header)]
    if len(ms) > 1:
        raise LookupError(f'{meth} of {kind}: {len(ms)} candidates')
    return ms[0] if ms else None


# ----------------------------------------------------------------------------- operands
class Opnd:
    def __init__(self, ex, kind, name, mem):
        self.kind = kind
        self.name = name
        self.conds = []
        if kind == 'S':
            self.t = z3.BitVec(name, 32)
            mem[('h', name)] = self.t
            self.recv = Ref(('h', name))
            self.numref = Enum('Int', [Enum('Small', [self.t], 'StarlarkIntRef')], 'NumRef')
        elif kind == 'B':
            self.t = z3.BitVec(name, BIGW)
            mem[('h', name)] = Struct([Big(self.t)], 'StarlarkBigInt')
            self.recv = Ref(('h', name))
            lo, hi = z3.BitVecVal(I32_MIN, BIGW), z3.BitVecVal(I32_MAX, BIGW)
            lim = z3.BitVecVal(1 << (BIGW - 2), BIGW)
            self.conds = [z3.Or(self.t < lo, self.t > hi), self.t < lim, self.t > -lim]
            self.numref = Enum('Int', [Enum('Big', [self.recv], 'StarlarkIntRef')], 'NumRef')
        else:
            self.t = z3.FP(name, F64)
            mem[('h', name)] = Struct([self.t], 'StarlarkFloat')
            self.recv = Ref(('h', name))
            self.numref = Enum('Float', [self.t], 'NumRef')
        self.value = Struct([self.numref], 'ValueNum')

    def wide(self):
        """integer value as BIGW-bit term (S, B only)"""
        return z3.SignExt(BIGW - 32, self.t) if self.kind == 'S' else self.t

    def witness(self, model):
        if self.kind == 'F':
            bits = model_f64_bits(model, self.t)
            return {'kind': 'F', 'bits': '0x%016x' % bits, 'value': repr(struct.unpack('<d', struct.pack('<Q', bits))[0])}
        return {'kind': self.kind, 'int': str(model_signed(model, self.t))}


def merge(ex, outs, extract):
    """fold the return paths of one call into a single term (path conditions are exhaustive)"""
    term = None
    for v, p, m in reversed(outs):
        val = extract(v, m)
        if term is None:
            term = val
        else:
            term = z3.If(z3.And(p.conds) if p.conds else z3.BoolVal(True), val, term)
    return term


class Tower:
    """symbolic summaries of the four methods for given operands"""

    def __init__(self, sess, abstract_mul=True):
        self.sess = sess
        self.ex = sess.executor(False, bigw=BIGW, extra=EXTRA)
        self.ex.abstract_mul64 = abstract_mul
        self.mem = {}
        self.ops = {}
        self.panics = []

    def opnd(self, kind, name):
        o = Opnd(self.ex, kind, name, self.mem)
        self.ops[name] = o
        return o

    def call(self, kind, meth, args):
        m = find_method(self.sess.db, kind, meth)
        if m is None:
            m = self.sess.db.find(rf'^fn (?:[\w:]*::)?StarlarkValue::{meth}\(')
            self.ex.next_self_ty = kind
            self.defaulted = True
        else:
            self.ex.next_self_ty = kind
        n0 = len(self.ex.panics)
        outs = self.ex.run(self.ex.get_fn(m), args, Path(), mem=self.mem)
        self.panics += self.ex.panics[n0:]
        if not outs:
            raise Unsupported(f'{kind}.{meth}: no return path')
        return outs

    def equals(self, x, y):
        outs = self.call(x.kind, 'equals', [x.recv, y.value])

        def ext(v, m):
            if v.variant != 'Ok':
                raise Unsupported('equals returned Err')
            return v.fields[0]
        return merge(self.ex, outs, ext)

    def compare(self, x, y):
        outs = self.call(x.kind, 'compare', [x.recv, y.value])

        def ext(v, m):
            if v.variant != 'Ok':
                raise Unsupported('compare returned Err on numeric operands')
            return ordering_term(v.fields[0])
        return merge(self.ex, outs, ext)

    def get_hash(self, x):
        outs = self.call(x.kind, 'get_hash', [x.recv, Struct([], 'Private')])

        def ext(v, m):
            if v.variant != 'Ok':
                raise Unsupported('get_hash returned Err')
            h = v.fields[0]
            while isinstance(h, Struct):
                h = h.fields[0]
            return h
        return merge(self.ex, outs, ext)

    def write_hash(self, x):
        """the hasher state after write_hash on a fresh hasher"""
        hm = self.sess.db.find_in_file('hasher.rs', 'new', r'-> StarlarkHasher \{')
        h0 = self.ex.run(self.ex.get_fn(hm), [], Path(), mem=self.mem)
        assert len(h0) == 1
        key = ('h', 'hasher_' + x.name)
        self.mem[key] = h0[0][0]
        outs = self.call(x.kind, 'write_hash', [x.recv, Ref(key)])

        def ext(v, m):
            if v.variant != 'Ok':
                raise Unsupported('write_hash returned Err')
            s = m[key]
            while isinstance(s, Struct):
                s = s.fields[0]
            return s
        return merge(self.ex, outs, ext)

    def lemmas(self):
        return list(self.ex.extra_lemmas)

    def done(self):
        self.sess.absorb(self.ex)


# ----------------------------------------------------------------------------- exact oracle
def exact_cmp(x, y):
    """mathematical three-way comparison as an 8-bit term; NaN is greater than everything and equal to itself"""
    def o(lt, eq):
        return z3.If(lt, z3.BitVecVal(-1, 8), z3.If(eq, z3.BitVecVal(0, 8), z3.BitVecVal(1, 8)))
    if x.kind != 'F' and y.kind != 'F':
        a, b = x.wide(), y.wide()
        return o(a < b, a == b)
    if x.kind == 'F' and y.kind == 'F':
        a, b = x.t, y.t
        return z3.If(z3.fpIsNaN(a), z3.If(z3.fpIsNaN(b), z3.BitVecVal(0, 8), z3.BitVecVal(1, 8)),
                     z3.If(z3.fpIsNaN(b), z3.BitVecVal(-1, 8), o(z3.fpLT(a, b), z3.fpEQ(a, b))))
    if x.kind == 'F':
        return -exact_cmp(y, x)
    # int vs float, exact
    n, f = x.wide(), y.t
    big = z3.FPVal(float(1 << (BIGW - 2)), F64)
    tr = z3.fpRoundToIntegral(z3.RTZ(), f)
    ti = z3.fpToSBV(z3.RTZ(), tr, z3.BitVecSort(BIGW))
    frac_pos = z3.fpGT(f, tr)
    frac_neg = z3.fpLT(f, tr)
    inner = z3.If(n < ti, z3.BitVecVal(-1, 8), z3.If(n > ti, z3.BitVecVal(1, 8),
                  z3.If(frac_pos, z3.BitVecVal(-1, 8), z3.If(frac_neg, z3.BitVecVal(1, 8), z3.BitVecVal(0, 8)))))
    return z3.If(z3.fpIsNaN(f), z3.BitVecVal(-1, 8),
                 z3.If(z3.fpGEQ(f, big), z3.BitVecVal(-1, 8), z3.If(z3.fpLEQ(f, z3.fpNeg(big)), z3.BitVecVal(1, 8), inner)))


# ----------------------------------------------------------------------------- obligations
def decide_all(sess, ob, tw, conds, viol, names, role):
    """query: conds ∧ viol; sat -> witness of the named operands"""
    r, model = sess.decide(ob, conds + [viol], tw.lemmas())
    if r == 'sat':
        if tw.ex.abstract_mul64 and 'hash' in ob.name:
            return 'refine'
        ob.fail({'kind': 'num', 'ops': {n: tw.ops[n].witness(model) for n in names}, 'role': role, 'obligation': ob.name})
    elif r == 'unknown':
        ob.inconclusive(f'solver unknown: {model}')
    return r


def run_ob(sess, name, desc, body, bounds=None):
    t1 = time.time()
    ob = Obligation(name, desc, bounds or f'every i32, every big int with |n| < 2^{BIGW - 2}, every f64 bit pattern')
    try:
        body(ob)
    except Unsupported as e:
        ob.inconclusive(f'unsupported MIR: {e}')
    except LookupError as e:
        ob.inconclusive(f'function not found: {e}')
    ob.wall_s = time.time() - t1
    return sess.add(ob)


def panic_check(sess, ob, tw, conds, names):
    for pn in tw.panics:
        sess.panic_edges_checked += 1
        r, model = sess.decide(ob, conds + pn.conds, tw.lemmas())
        if r == 'sat':
            ob.fail({'kind': 'num', 'ops': {n: tw.ops[n].witness(model) for n in names}, 'role': 'panic in numeric comparison/hash', 'panic': pn.msg})
        elif r == 'unknown':
            ob.inconclusive('solver unknown on a panic edge')
    tw.panics = []


def same_payload(x, y):
    if x.kind == 'F':
        return z3.Or(x.t == y.t, z3.And(z3.fpIsNaN(x.t), z3.fpIsNaN(y.t)))   # == on FP sort is structural (NaN==NaN, +0 != -0)
    return x.t == y.t


def role_of(kinds, what):
    ks = ','.join(sorted(kinds))
    return f'{what}[{ks}]'


def run(sess):
    global BIGW
    BIGW = 64 if sess.tier == 'quick' else 128
    prev_logic = sess.decider.logic
    sess.decider.logic = 'QF_FPBV'      # bit-vector + floating point only: eager bit-blasting is 10-20x faster here
    try:
        _run(sess)
    finally:
        sess.decider.logic = prev_logic
    from . import c09_seq
    c09_seq.run(sess)


def _run(sess):
    META['bounds'] = f'every i32; big ints as {BIGW}-bit signed values with |n| < 2^{BIGW - 2}; every f64 bit pattern (NaNs, infinities, signed zeros, subnormals)'
    # (1) reflexivity
    for k in KINDS:
        def body(ob, k=k):
            tw = Tower(sess)
            x, y = tw.opnd(k, 'x'), tw.opnd(k, 'y')
            e = tw.equals(x, y)
            ob.paths = tw.ex.npaths
            conds = x.conds + y.conds + [same_payload(x, y)]
            decide_all(sess, ob, tw, conds, z3.Not(e), ['x', 'y'], role_of([k], 'reflexivity'))
            r, m = sess.decide(ob, conds, tw.lemmas())
            ob.twin = r
            panic_check(sess, ob, tw, x.conds + y.conds, ['x', 'y'])
            tw.done()
        run_ob(sess, f'C09.reflexive[{k}]', f'x == x for every {KNAME[k]} (two separately allocated copies)', body)
    # (2) symmetry, (4) eq => same hash, (5a) compare consistent with equals and antisymmetric, (6) exactness
    for kx, ky in itertools.combinations_with_replacement(KINDS, 2):
        def body_sym(ob, kx=kx, ky=ky):
            tw = Tower(sess)
            x, y = tw.opnd(kx, 'x'), tw.opnd(ky, 'y')
            exy, eyx = tw.equals(x, y), tw.equals(y, x)
            ob.paths = tw.ex.npaths
            conds = x.conds + y.conds
            decide_all(sess, ob, tw, conds, exy != eyx, ['x', 'y'], role_of([kx, ky], 'symmetry'))
            r, m = sess.decide(ob, conds + [exy, eyx], tw.lemmas())
            ob.twin = r
            if r == 'sat':
                ob.sample = {n: tw.ops[n].witness(m) for n in ('x', 'y')}
            else:
                ob.inconclusive('vacuity: no equal pair exists for this representation pair') if not (kx != ky and 'B' in (kx, ky) and 'S' in (kx, ky)) else None
            panic_check(sess, ob, tw, conds, ['x', 'y'])
            tw.done()
        run_ob(sess, f'C09.symmetric[{kx},{ky}]', f'equals({KNAME[kx]}, {KNAME[ky]}) = equals({KNAME[ky]}, {KNAME[kx]}), each side dispatched from its own type', body_sym)

        def body_hash(ob, kx=kx, ky=ky):
            for abstract in (True, False):
                tw = Tower(sess, abstract_mul=abstract)
                x, y = tw.opnd(kx, 'x'), tw.opnd(ky, 'y')
                exy = tw.equals(x, y)
                hx, hy = tw.get_hash(x), tw.get_hash(y)
                wx, wy = tw.write_hash(x), tw.write_hash(y)
                ob.paths = tw.ex.npaths
                conds = x.conds + y.conds + [exy]
                r1 = decide_all(sess, ob, tw, conds, hx != hy, ['x', 'y'], role_of([kx, ky], 'equal values, different get_hash'))
                r2 = decide_all(sess, ob, tw, conds, wx != wy, ['x', 'y'], role_of([kx, ky], 'equal values, different write_hash'))
                panic_check(sess, ob, tw, x.conds + y.conds, ['x', 'y'])
                tw.done()
                if 'refine' not in (r1, r2):
                    break
                ob.reason = ''
                sess.notes.add('hash obligations: 64-bit wrapping_mul first abstracted as an uninterpreted function; sat answers re-decided with the real multiplication')
        run_ob(sess, f'C09.eq_implies_same_hash[{kx},{ky}]', f'{KNAME[kx]} == {KNAME[ky]} implies equal get_hash (dict/set key) and equal write_hash words (tuple/struct key)', body_hash)

        def body_cmp(ob, kx=kx, ky=ky):
            tw = Tower(sess)
            x, y = tw.opnd(kx, 'x'), tw.opnd(ky, 'y')
            cxy, cyx = tw.compare(x, y), tw.compare(y, x)
            exy = tw.equals(x, y)
            ob.paths = tw.ex.npaths
            conds = x.conds + y.conds
            decide_all(sess, ob, tw, conds, cxy != -cyx, ['x', 'y'], role_of([kx, ky], 'compare antisymmetry'))
            decide_all(sess, ob, tw, conds, (cxy == 0) != exy, ['x', 'y'], role_of([kx, ky], 'compare == Equal iff equals'))
            decide_all(sess, ob, tw, conds, cxy != exact_cmp(x, y), ['x', 'y'], role_of([kx, ky], 'comparison differs from the exact mathematical comparison'))
            r, m = sess.decide(ob, conds + [cxy == z3.BitVecVal(-1, 8)], tw.lemmas())
            ob.twin = r
            panic_check(sess, ob, tw, conds, ['x', 'y'])
            tw.done()
        run_ob(sess, f'C09.compare[{kx},{ky}]', f'compare({KNAME[kx]}, {KNAME[ky]}) is antisymmetric, Equal exactly when equals, and equals the exact mathematical order (NaN greatest)', body_cmp)
    # (3) transitivity of equals, (5b) transitivity of compare
    for ks in itertools.product(KINDS, repeat=3):
        kx, ky, kz = ks

        def body_tr(ob, kx=kx, ky=ky, kz=kz):
            tw = Tower(sess)
            x, y, z = tw.opnd(kx, 'x'), tw.opnd(ky, 'y'), tw.opnd(kz, 'z')
            exy, eyz, exz = tw.equals(x, y), tw.equals(y, z), tw.equals(x, z)
            ob.paths = tw.ex.npaths
            conds = x.conds + y.conds + z.conds
            decide_all(sess, ob, tw, conds, z3.And(exy, eyz, z3.Not(exz)), ['x', 'y', 'z'], role_of([kx, ky, kz], 'transitivity of =='))
            tw.done()
        run_ob(sess, f'C09.transitive_eq[{kx},{ky},{kz}]', 'x == y and y == z imply x == z', body_tr)
    for ks in itertools.product(KINDS, repeat=3):
        kx, ky, kz = ks

        def body_tc(ob, kx=kx, ky=ky, kz=kz):
            tw = Tower(sess)
            x, y, z = tw.opnd(kx, 'x'), tw.opnd(ky, 'y'), tw.opnd(kz, 'z')
            cxy, cyz, cxz = tw.compare(x, y), tw.compare(y, z), tw.compare(x, z)
            ob.paths = tw.ex.npaths
            conds = x.conds + y.conds + z.conds
            le = lambda c: c != z3.BitVecVal(1, 8)
            decide_all(sess, ob, tw, conds, z3.And(le(cxy), le(cyz), z3.Not(le(cxz))), ['x', 'y', 'z'], role_of([kx, ky, kz], 'transitivity of <='))
            tw.done()
        run_ob(sess, f'C09.transitive_cmp[{kx},{ky},{kz}]', 'x <= y and y <= z imply x <= z', body_tc)


META = {
    'explanation': 'C09 (numeric tower): equals / compare / get_hash / write_hash of inline int, big int and float are executed symbolically from '
                   'MIR, dispatched per representation as the vtable does, and the algebraic laws are decided for all operand values: reflexive, '
                   'symmetric, transitive equality; equal => same hash (both hash paths); compare antisymmetric, transitive, Equal iff equals, and '
                   'equal to the exact mathematical order.',
    'bounds': f'every i32; big ints as {BIGW}-bit signed values with |n| < 2^{BIGW - 2}; every f64 bit pattern (NaNs, infinities, signed zeros, subnormals)',
    'outside': 'strings, dicts, sets, structs, hashing of tuples; Value::equals pointer shortcut and recursion guard (C15.stack_guard); sorted(); the dict/set lookup code that consumes the hash. '
               'Sequence equality / ordering (equals_slice, compare_slice behind tuple and list comparison) IS covered for lengths <= 3 (quick) / 4 (thorough) with integer elements (C09.seq).',
    'assumptions': ['BigInt::to_f64 rounds to nearest even; BigInt::from_f64 truncates', 'Value::unpack_num returns the operand\'s NumRef; PointerI32::get returns the tagged int',
                    'f64::to_bits encoded as fresh bit-vector b with to_fp(b) == f'],
}


# ----------------------------------------------------------------------------- replay
def opnd_literal(o):
    if o['kind'] == 'F':
        return None
    return o['int']


def replay_witness(w, rp):
    if w.get('kind') == 'seq':
        from . import c09_seq
        return c09_seq.replay_witness(w, rp)
    ops = w['ops']
    names = sorted(ops)
    vars_ = {}
    for n in names:
        o = ops[n]
        vars_[n] = {'float_bits': o['bits']} if o['kind'] == 'F' else {'int': o['int']}
    role = w.get('role', 'num')
    if len(names) == 2:
        prog = ('(x == y, y == x, (x in {y: 1}), (y in {x: 1}), ((x, 0) in {(y, 0): 1}), x < y, y < x, x <= y, y <= x)')
    else:
        prog = ('(x == y, y == z, x == z, x <= y, y <= z, x <= z)')
    fargs = ', '.join(names)
    cases = [{'kind': 'eval', 'program': prog, 'vars': vars_},
             {'kind': 'eval', 'program': f'def check({fargs}):\n    return {prog}\ncheck({fargs})', 'vars': vars_}]     # same laws inside a function body
    got = {}
    repro = False
    detail = ''
    for profile, ci in (('dev', 0), ('dev', 1), ('release', 0), ('release', 1)):
        res = rp.run([cases[ci]], profile)[0]
        got[f'{profile}/{"module" if ci == 0 else "function"}'] = res
        if 'panic' in res or 'abort' in res:
            repro = True
            detail = 'panic'
            continue
        if 'ok' not in res:
            continue
        vals = [s.strip() == 'True' for s in res['ok'].strip('()').split(',')]
        if len(names) == 2:
            eq, eq2, in1, in2, tin, lt, gt, le, ge = vals
            bad = []
            if eq != eq2:
                bad.append('== not symmetric')
            if eq and not (in1 and in2):
                bad.append('equal but not interchangeable as dict keys')
            if eq and not tin:
                bad.append('equal but tuples containing them are not interchangeable as dict keys')
            if lt and gt:
                bad.append('x<y and y<x')
            if eq != (le and ge):
                bad.append('== disagrees with <= and >=')
            # exactness: recompute mathematically
            ex = exact_py(ops['x'], ops['y'])
            if ex is not None:
                if (ex == 0) != eq:
                    bad.append(f'== is {eq} but the exact comparison is {ex}')
                elif (ex < 0) != lt:
                    bad.append(f'< is {lt} but the exact comparison is {ex}')
        else:
            exy, eyz, exz, lxy, lyz, lxz = vals
            bad = []
            if exy and eyz and not exz:
                bad.append('== not transitive')
            if lxy and lyz and not lxz:
                bad.append('<= not transitive')
        if bad:
            repro = True
            detail = '; '.join(bad)
    return {'reproduced': repro, 'role': role, 'detail': f'{detail} operands={ops} native={got}', 'cases': cases}


def exact_py(a, b):
    """exact three-way comparison of two witness operands in Python (fractions); NaN greatest"""
    from fractions import Fraction
    import math

    def val(o):
        if o['kind'] == 'F':
            f = struct.unpack('<d', struct.pack('<Q', int(o['bits'], 16)))[0]
            return f
        return int(o['int'])
    x, y = val(a), val(b)
    xn = isinstance(x, float) and math.isnan(x)
    yn = isinstance(y, float) and math.isnan(y)
    if xn or yn:
        return 0 if (xn and yn) else (1 if xn else -1)

    def frac(v):
        if isinstance(v, float) and math.isinf(v):
            return None
        return Fraction(v)
    fx, fy = frac(x), frac(y)
    if fx is None or fy is None:
        if fx is None and fy is None:
            return (x > y) - (x < y)
        if fx is None:
            return 1 if x > 0 else -1
        return -1 if y > 0 else 1
    return (fx > fy) - (fx < fy)


# ----------------------------------------------------------------------------- translator validation
def validate(sess, rp):
    """concrete numbers through the encoding (operands fixed, solver asked for equals / compare) and through the native build"""
    import struct as _struct
    global BIGW
    BIGW = 64
    prev = sess.decider.logic
    vals = {'S': [0, 1, -1, 7, I32_MAX, I32_MIN],
            'B': [I32_MAX + 1, I32_MIN - 1, 1 << 53, (1 << 53) + 1, -(1 << 53) - 1, (1 << 61) + 3],
            'F': [0.0, -0.0, 1.0, -1.0, 0.5, 7.0, 2147483647.0, 2147483648.0, -2147483649.0, float(1 << 53), float((1 << 53) + 2), 1e300, float('inf'), float('-inf'), float('nan')]}
    f2b = lambda f: _struct.unpack('<Q', _struct.pack('<d', f))[0]
    cases, meta = [], []
    for kx, ky in itertools.product(KINDS, repeat=2):
        tw = Tower(sess)
        x, y = tw.opnd(kx, 'x'), tw.opnd(ky, 'y')
        exy, cxy = tw.equals(x, y), tw.compare(x, y)
        s = z3.SolverFor('QF_FPBV')
        for lm in tw.lemmas():
            s.add(lm)
        for vx in vals[kx]:
            for vy in vals[ky]:
                s.push()
                for o, v in ((x, vx), (y, vy)):
                    if o.kind == 'F':
                        s.add(o.t == z3.fpBVToFP(z3.BitVecVal(f2b(v), 64), F64))
                    else:
                        s.add(o.t == z3.BitVecVal(v, o.t.size()))
                if s.check() != z3.sat:
                    s.pop()
                    continue
                m = s.model()
                e = z3.is_true(m.eval(exy, model_completion=True))
                c = m.eval(cxy, model_completion=True).as_signed_long()
                s.pop()
                var = lambda o, v: ({'float_bits': '0x%016x' % f2b(v)} if o.kind == 'F' else {'int': str(v)})
                cases.append({'kind': 'eval', 'program': 'def f(x, y):\n    return (x == y, x < y, x > y)\nf(x, y)', 'vars': {'x': var(x, vx), 'y': var(y, vy)}})
                meta.append((f'{kx}:{vx!r} vs {ky}:{vy!r}', str((e, c < 0, c > 0))))
        tw.done()
    sess.decider.logic = prev
    res = rp.run(cases, 'dev')
    mism = [f'{what}: encoding says {exp}, native build says {str(g)[:100]}' for (what, exp), g in zip(meta, res) if g.get('ok') != exp]
    return len(cases), mism
