"""C08 (definition side only) — `def` parameter lists are accepted exactly when the call rules allow them and each
parameter gets the prescribed mode: `DefParams::unpack` (starlark_syntax/src/syntax/def.rs) executed from MIR with its
real loop over parameter lists of bounded length whose parameter KINDS are solver-chosen enum discriminants
(`/`, plain, with default, `*`, `*args`, `**kwargs`)."""
import itertools
import time
import z3

from .common import Session, Obligation, Path, Enum, Struct, Ref, Opaque, Err, Slice, Unsupported, ret, OK, ERR, SOME, NONE, d, model_int
from .seq import ITER
from .srcparse import enum_variants
from mirsym import exec as mexec
from mirsym.exec import SymEnum

CRATES = ('starlark_syntax', 'starlark')
AST = '/repo/starlark_syntax/src/syntax/ast.rs'
DEF = '/repo/starlark_syntax/src/syntax/def.rs'
KINDS = ['/', 'x', 'x=1', '*', '*args', '**kw']


def contracts():
    def c_err(ex, st, args, path, callee):
        return ret(Err('parser error', 'ParseError'), path)

    def c_ok_unit(ex, st, args, path, callee):
        return ret(OK(Struct([])), path)

    def c_none(ex, st, args, path, callee):
        return ret(NONE(), path)

    def c_opaque(ex, st, args, path, callee):
        return ret(Opaque('x'), path)

    def c_vec_new(ex, st, args, path, callee):
        return ret(Slice(z3.IntVal(0), [], 'vec'), path)

    def c_vec_push(ex, st, args, path, callee):
        r = args[0]
        v = ex.read_ref(st['mem'], r)
        mem = dict(st['mem'])
        st2 = dict(st)
        st2['mem'] = mem
        ex.write_ref(st2, r, Slice(z3.IntVal(len(v.elems) + 1), list(v.elems) + [args[1]], 'vec'))
        return [('ret', Struct([]), path, mem)]

    def c_vec_len(ex, st, args, path, callee):
        return ret(d(ex, args[0]).length, path)

    def c_set_insert(ex, st, args, path, callee):
        r = args[0]
        v = ex.read_ref(st['mem'], r)
        x = d(ex, args[1])
        while isinstance(x, Struct) and len(x.fields) >= 1 and not z3.is_expr(x):
            x = d(ex, x.fields[0])
        fresh = z3.And([x != e for e in v.elems]) if v.elems else z3.BoolVal(True)
        out = []
        pn = path.add(fresh)
        if ex.feasible(pn.conds):
            st2 = dict(st)
            st2['mem'] = dict(st['mem'])
            ex.write_ref(st2, r, Slice(z3.IntVal(len(v.elems) + 1), list(v.elems) + [x], 'set'))
            out.append(('ret', z3.BoolVal(True), pn, st2['mem']))
        po = path.add(z3.Not(fresh))
        if v.elems and ex.feasible(po.conds):
            out.append(('ret', z3.BoolVal(False), po, st['mem']))
        return out

    def c_deref_spanned(ex, st, args, path, callee):
        r = args[0]
        return ret(Ref(r.addr, r.path + (0,)) if isinstance(r, Ref) else r, path)

    def c_as_deref(ex, st, args, path, callee):
        return ret(d(ex, args[0]), path)
    def c_vec_range(ex, st, args, path, callee):
        v = d(ex, args[0])
        rg = d(ex, args[1])
        b = [z3.simplify(x) if z3.is_expr(x) else x for x in (rg.fields if isinstance(rg, Struct) else [rg])]
        if not all(z3.is_int_value(x) for x in b):
            raise Unsupported(f'range index with symbolic bound {b}')
        lo, hi = (0, b[0].as_long()) if len(b) == 1 else (b[0].as_long(), b[1].as_long())
        if not (lo <= hi <= len(v.elems)):
            ex.add_panic(path, f'range {lo}..{hi} out of bounds for length {len(v.elems)}', callee)
            return []
        return ret(Slice(z3.IntVal(hi - lo), v.elems[lo:hi], 'sub'), path)

    return ITER + [
        ('Vec[a..b] / Vec[..b] = the sub-sequence (bounds concrete on each path)', r'^<Vec<.*> as Index<(std::ops::)?Range(To)?<usize>>>::index$', c_vec_range),
        ('<Vec<T> as Deref>::deref = the sequence', r'^<Vec<.*> as Deref>::deref$', c_as_deref),
        ('EvalException::parser_error / internal_error = an error token', r'EvalException::(parser_error|internal_error)::<', c_err),
        ('HashSet::new = empty set', r'^HashSet::<.*>::new$', c_vec_new),
        ('HashSet::insert(x) = x not in set (names are integers)', r'^HashSet::<.*>::insert$', c_set_insert),
        ('String::as_str = the name', r'^(std::string::)?String::as_str$', c_as_deref),
        ('Span::merge_all / Iterator::map (error text only) = opaque', r'Span::merge_all::<|as Iterator>::map::<', c_opaque),
        ('Vec::with_capacity = empty sequence', r'^Vec::<.*>::with_capacity$', c_vec_new),
        ('Vec::push', r'^Vec::<.*>::push$', c_vec_push),
        ('Vec::len', r'^Vec::<.*>::len$', c_vec_len),
        ('<Spanned<T> as Deref>::deref = the node', r'^<Spanned<.*> as (std::ops::)?Deref>::deref$', c_deref_spanned),
        ('Option::as_deref = the same option', r'^(std::option::)?Option::<.*>::as_deref$', c_as_deref),
    ]


def python_rules(kinds):
    """Python / Starlark rules for a `def` parameter list: returns None if ill-formed, else the list of modes"""
    if kinds.count('/') > 1 or (kinds and kinds[0] == '/'):
        return None
    stars = [k for k in kinds if k in ('*', '*args')]
    if len(stars) > 1 or kinds.count('**kw') > 1:
        return None
    if '**kw' in kinds and kinds[-1] != '**kw':
        return None
    si = next((i for i, k in enumerate(kinds) if k in ('*', '*args')), None)
    sl = kinds.index('/') if '/' in kinds else None
    if sl is not None and si is not None and sl > si:
        return None
    if sl is not None and '**kw' in kinds and sl > kinds.index('**kw'):
        return None
    if si is not None and kinds[si] == '*':
        if si + 1 >= len(kinds) or kinds[si + 1] not in ('x', 'x=1'):
            return None
    seen_default = False
    modes = []
    npos = nposonly = 0
    for i, k in enumerate(kinds):
        if k in ('x', 'x=1'):
            before_star = si is None or i < si
            if k == 'x=1':
                seen_default = True
            elif seen_default and before_star:
                return None          # non-default positional after a default one
            if sl is not None and i < sl:
                modes.append('PosOnly')
                nposonly += 1
            elif before_star:
                modes.append('PosOrName')
            else:
                modes.append('NameOnly')
            npos += 1 if before_star else 0
        elif k == '*args':
            modes.append('Args')
        elif k == '**kw':
            modes.append('Kwargs')
    return {'modes': modes, 'num_positional': npos, 'num_positional_only': nposonly,
            'args': modes.index('Args') if 'Args' in modes else None, 'kwargs': modes.index('Kwargs') if 'Kwargs' in modes else None}


def find_kind(ex, m, v, depth=0):
    v = ex.deref(m, v)
    if isinstance(v, Enum) and v.variant in ('Regular', 'Args', 'Kwargs') and v.ty != 'Option':
        return v
    if isinstance(v, Struct) and depth < 4:
        for f in v.fields:
            try:
                r = find_kind(ex, m, f, depth + 1)
            except Unsupported:
                r = None
            if r is not None:
                return r
    return None


def bind_program(sig, call):
    """Starlark program performing the call; None when the signature cannot be written as a `def` (optional parameters are native-only)"""
    kinds = sig['kinds']
    if 'Optional' in kinds:
        return None
    n = len(kinds)
    ps = []
    regular_before = [i for i in range(n) if kinds[i] in ('Required', 'Defaulted')]
    for i, k in enumerate(kinds):
        if i == sig['nposonly'] and i > 0:
            ps.append('/')
        if i == sig['npos'] and 'Args' not in kinds and k in ('Required', 'Defaulted'):
            ps.append('*')
        ps.append({'Required': f'p{i}', 'Defaulted': f'p{i} = "d{i}"', 'Args': f'*p{i}', 'KWargs': f'**p{i}'}[k])
    if sig['nposonly'] == n and n > 0:
        ps.append('/')

    def nm(x):
        return f'p{x}' if x < n else f'u{x - n}'
    args = [str(v) for v in call['pos']] + [f'{nm(k)} = {v}' for k, v in call['named']]
    if call['star'] is not None:
        args.append('*[' + ', '.join(str(v) for v in call['star']) + ']' if call.get('star_iterable', True) else '*7')
    if call['kw'] is not None:
        flags = call.get('kw_is_str') or [True] * len(call['kw'])
        args.append('**7' if call.get('kw_is_dict', True) is False else '**{' + ', '.join((f'"{nm(k)}": {v}' if isstr else f'{7000 + j}: {v}') for j, ((k, v), isstr) in enumerate(zip(call['kw'], flags))) + '}')
    body = ', '.join(f'p{i}' for i in range(n))
    return f'def f({", ".join(ps)}):\n    return [{body}]\n\ndef g():\n    return f({", ".join(args)})\n\ng()\n'


def bind_repr(sig, want):
    n = len(sig['kinds'])

    def nm(x):
        return f'p{x}' if x < n else f'u{x - n}'

    def one(v):
        if v is None:
            return 'None'
        if isinstance(v, (tuple, list)) and v[0] == 'default':
            return f'"d{v[1]}"'
        if isinstance(v, (tuple, list)) and v[0] == 'tuple':
            return '(' + ', '.join(str(x) for x in v[1]) + (',)' if len(v[1]) == 1 else ')')
        if isinstance(v, (tuple, list)) and v[0] == 'dict':
            return '{' + ', '.join(f'"{nm(k)}": {x}' for k, x in v[1]) + '}'
        return str(v)
    return '[' + ', '.join(one(v) for v in want) + ']'


def valid_sig(sig):
    """a signature a `def` can produce and ParametersSpecBuilder accepts"""
    kinds = sig['kinds']
    n = len(kinds)
    a = kinds.index('Args') if 'Args' in kinds else None
    k = kinds.index('KWargs') if 'KWargs' in kinds else None
    if k is not None and k != n - 1:
        return False
    if kinds.count('Args') > 1 or kinds.count('KWargs') > 1:
        return False
    lim = min([x for x in (a, k) if x is not None], default=n)
    if a is not None and sig['npos'] != a:
        return False
    if not (0 <= sig['nposonly'] <= sig['npos'] <= lim):
        return False
    if a is None and sig['npos'] < lim and sig['npos'] == (k if k is not None else n):
        return False
    # Python: no required positional parameter after a defaulted one
    seen = False
    for i in range(sig['npos']):
        if kinds[i] == 'Defaulted':
            seen = True
        elif seen:
            return False
    return True


_SESS = None


def _bind_task(task):
    """one (signature shape, chunk of call shapes) in a forked worker: returns the obligation part and the bookkeeping deltas"""
    from . import c08_bind as B
    sess = _SESS
    sig, calls = task
    z3.set_param('smt.random_seed', sess.seed & 0x7fffffff)
    ob = Obligation('part', '', '')
    base = (sess.decider.nq, dict(sess.decider.stats['z3']), dict(sess.decider.stats['cvc5']), sess.decider.stats['disagreements'], sess.feas_queries, sess.unknown_feas, sess.panic_edges_checked)
    sess.encoded, sess.used_contracts = {}, {}
    inst = 0
    try:
        for call in calls:
            inst += B.run_shape(sess, ob, sig, call)
    except (Unsupported, LookupError, StopIteration) as e:
        ob.inconclusive(f'unsupported: {type(e).__name__} {e}')
    dz = {k: sess.decider.stats['z3'][k] - base[1][k] for k in base[1]}
    dc = {k: sess.decider.stats['cvc5'][k] - base[2][k] for k in base[2]}
    return {'sig': sig, 'paths': ob.paths, 'queries': ob.queries, 'status': ob.status, 'reason': ob.reason, 'witnesses': sorted(ob.witnesses, key=lambda w: ('Optional' in w['sig']['kinds'], not valid_sig(w['sig']), w.get('reference') is None, len(str(w))))[:6], 'inst': inst,
            'encoded': sess.encoded, 'contracts': sess.used_contracts, 'nq': sess.decider.nq - base[0], 'z3': dz, 'cvc5': dc,
            'disagreements': sess.decider.stats['disagreements'] - base[3], 'feas': sess.feas_queries - base[4], 'unk': sess.unknown_feas - base[5], 'panic': sess.panic_edges_checked - base[6]}


def run_bind(sess):
    """obligations per signature shape; the (signature, call shape) runs are independent and are spread over forked workers"""
    global _SESS
    import multiprocessing
    import os
    from . import c08_bind as B
    nmax = 2 if sess.tier == 'quick' else 3
    sigs = B.signature_shapes(nmax)
    tasks = []
    for sig in sigs:
        calls = B.call_shapes(sess.tier, sig[0])
        # heavier signatures (many regular parameters) are cut into smaller chunks
        reg = sig[0] - (sig[1] is not None) - (sig[2] is not None)
        step = {0: len(calls), 1: 27, 2: 3}.get(reg, 1)
        for i in range(0, len(calls), step):
            tasks.append((sig, calls[i:i + step]))
    tasks.sort(key=lambda t: -(t[0][0] - (t[0][1] is not None) - (t[0][2] is not None)) * 100 - max(c[0] + 2 * c[1] + (c[3] or 0) for c in t[1]))      # heavy first
    _SESS = sess
    t0 = time.time()
    workers = int(os.environ.get('VERIF_WORKERS', '12'))
    with multiprocessing.get_context('fork').Pool(workers) as pool:
        results = pool.map(_bind_task, tasks, chunksize=1)
    wall = time.time() - t0
    for sig in sigs:
        n, a, k = sig
        calls = B.call_shapes(sess.tier, n)
        ob = Obligation(f'C08.bind[n={n},args={a},kwargs={k}]', 'ParametersSpec::collect_inline_impl + collect_slow: the slots receive exactly the values the Python call rules prescribe (positional, by name, defaults, *args tuple, **kwargs dict in order), and the call fails exactly when the rules say so (missing, unexpected, or multiple values)',
                        f'signature of {n} parameters with *args at {a} and **kwargs at {k}; kinds required/optional/defaulted, num_positional and num_positional_only solver-chosen; {len(calls)} call shapes: up to {max(c[0] for c in calls)} positional, {max(c[1] for c in calls)} named, *sequence and **mapping absent or of length up to {max(c[2] or 0 for c in calls)}; names and keys solver-chosen among parameter names and two unknown names')
        inst = 0
        for r in results:
            if r['sig'] != sig:
                continue
            ob.paths += r['paths']
            ob.queries += r['queries']
            inst += r['inst']
            if r['status'] == 'inconclusive':
                ob.inconclusive(r['reason'])
            for w in r['witnesses']:
                ob.fail(w)
            sess.encoded.update(r['encoded'])
            for c, v in r['contracts'].items():
                sess.used_contracts[c] = sess.used_contracts.get(c, 0) + v
            sess.decider.nq += r['nq']
            for kk, v in r['z3'].items():
                sess.decider.stats['z3'][kk] += v
            for kk, v in r['cvc5'].items():
                sess.decider.stats['cvc5'][kk] += v
            sess.decider.stats['disagreements'] += r['disagreements']
            sess.feas_queries += r['feas']
            sess.unknown_feas += r['unk']
            sess.panic_edges_checked += r['panic']
        # witnesses that can be written as a Starlark program first
        ob.witnesses.sort(key=lambda w: ('Optional' in w['sig']['kinds'], not valid_sig(w['sig']), w.get('reference') is None, len(str(w))))
        ob.sample = {'instances': inst, 'call_shapes': len(calls)}
        ob.twin = 'sat' if inst else 'unsat'
        if not inst:
            ob.inconclusive('no instance reached (vacuity)')
        ob.wall_s = wall / len(sigs)
        sess.add(ob)
    sess.notes.add(f'C08.bind runs are spread over {workers} forked worker processes (solver time in the evidence is the sum over workers)')


def _can_fill_task(task):
    from . import c08_bind as B
    sess = _SESS
    sig, combos = task
    z3.set_param('smt.random_seed', sess.seed & 0x7fffffff)
    ob = Obligation('part', '', '')
    base = (sess.decider.nq, dict(sess.decider.stats['z3']), dict(sess.decider.stats['cvc5']), sess.decider.stats['disagreements'], sess.feas_queries, sess.unknown_feas, sess.panic_edges_checked)
    sess.encoded, sess.used_contracts = {}, {}
    inst = 0
    try:
        for P, K in combos:
            inst += B.run_can_fill(sess, ob, sig, P, K)
    except (Unsupported, LookupError, StopIteration) as e:
        ob.inconclusive(f'unsupported: {type(e).__name__} {e}')
    dz = {k: sess.decider.stats['z3'][k] - base[1][k] for k in base[1]}
    dc = {k: sess.decider.stats['cvc5'][k] - base[2][k] for k in base[2]}
    return {'sig': sig, 'paths': ob.paths, 'queries': ob.queries, 'status': ob.status, 'reason': ob.reason, 'witnesses': sorted(ob.witnesses, key=lambda w: ('Optional' in w['sig']['kinds'], len(str(w))))[:6], 'inst': inst,
            'encoded': sess.encoded, 'contracts': sess.used_contracts, 'nq': sess.decider.nq - base[0], 'z3': dz, 'cvc5': dc,
            'disagreements': sess.decider.stats['disagreements'] - base[3], 'feas': sess.feas_queries - base[4], 'unk': sess.unknown_feas - base[5], 'panic': sess.panic_edges_checked - base[6]}


def merge_worker_result(sess, ob, r):
    ob.paths += r['paths']
    ob.queries += r['queries']
    if r['status'] == 'inconclusive':
        ob.inconclusive(r['reason'])
    for w in r['witnesses']:
        ob.fail(w)
    sess.encoded.update(r['encoded'])
    for c, v in r['contracts'].items():
        sess.used_contracts[c] = sess.used_contracts.get(c, 0) + v
    sess.decider.nq += r['nq']
    for kk, v in r['z3'].items():
        sess.decider.stats['z3'][kk] += v
    for kk, v in r['cvc5'].items():
        sess.decider.stats['cvc5'][kk] += v
    sess.decider.stats['disagreements'] += r['disagreements']
    sess.feas_queries += r['feas']
    sess.unknown_feas += r['unk']
    sess.panic_edges_checked += r['panic']
    return r['inst']


def run_can_fill(sess):
    """ParametersSpec::can_fill_with_args(pos, names) == "the call binds under the Python rules" (no *seq / **map)"""
    global _SESS
    import multiprocessing
    import os
    from . import c08_bind as B
    nmax = 2 if sess.tier == 'quick' else 3
    sigs = B.signature_shapes(nmax)
    tasks = []
    for sig in sigs:
        pmax, kmax = (2, 2) if sig[0] <= 2 else (3, 1)
        combos = [(P, K) for P in range(pmax + 2 if sess.tier != 'quick' and sig[0] <= 2 else pmax + 1) for K in range(kmax + 1)]
        for c in combos:
            tasks.append((sig, [c]))
    tasks.sort(key=lambda t: -(t[0][0] * 10 + t[1][0][1] * 3 + t[1][0][0]))
    _SESS = sess
    t0 = time.time()
    workers = int(os.environ.get('VERIF_WORKERS', '12'))
    with multiprocessing.get_context('fork').Pool(workers) as pool:
        results = pool.map(_can_fill_task, tasks, chunksize=1)
    wall = time.time() - t0
    for sig in sigs:
        n, a, k = sig
        mine = [t for t in tasks if t[0] == sig]
        ob = Obligation(f'C08.can_fill[n={n},args={a},kwargs={k}]', 'ParametersSpec::can_fill_with_args(pos, names) is true exactly when a call with `pos` positional arguments and the named arguments `names` binds under the Python call rules',
                        f'signature of {n} parameters with *args at {a} and **kwargs at {k}, kinds and positional counts solver-chosen; pos <= {max(t[1][0][0] for t in mine)}, up to {max(t[1][0][1] for t in mine)} pairwise different names, each any parameter name or unknown')
        inst = 0
        for r in results:
            if r['sig'] == sig:
                inst += merge_worker_result(sess, ob, r)
        ob.sample = {'instances': inst}
        ob.twin = 'sat' if inst else 'unsat'
        if not inst:
            ob.inconclusive('no instance reached (vacuity)')
        ob.wall_s = wall / len(sigs)
        sess.add(ob)


def run_builder(sess):
    from . import c08_bind as B
    tmax = 3 if sess.tier == 'quick' else 4
    for has_args in (False, True):
        for has_kwargs in (False, True):
            t1 = time.time()
            ob = Obligation(f'C08.builder[args={has_args},kwargs={has_kwargs}]', 'ParametersSpecBuilder (the call sequence of ParametersSpec::new_parts) produces the spec the binder obligations assume: kinds in order, num_positional, num_positional_only, *args / **kwargs indices, and a names map holding exactly the parameters that are not positional-only',
                            f'every split of up to {tmax} regular parameters into positional-only / positional-or-named / named-only; kinds (required / optional / defaulted) solver-chosen; names pairwise different')
            inst = 0
            try:
                for po in range(tmax + 1):
                    for pn in range(tmax + 1 - po):
                        for no in range(tmax + 1 - po - pn):
                            inst += B.run_builder(sess, ob, po, pn, has_args, no, has_kwargs)
            except (Unsupported, LookupError, StopIteration, AttributeError) as e:
                ob.inconclusive(f'unsupported: {type(e).__name__} {e}')
            ob.sample = {'instances': inst}
            ob.twin = 'sat' if inst else 'unsat'
            if not inst:
                ob.inconclusive('no instance reached (vacuity)')
            ob.wall_s = time.time() - t1
            sess.add(ob)


def run(sess):
    run_bind(sess)
    run_can_fill(sess)
    run_builder(sess)
    variants = enum_variants(AST, 'ParameterP')
    mexec.ENUMS['ParameterP'] = variants
    mexec.ENUMS['State'] = ['Normal', 'SeenSlash', 'SeenStar', 'SeenStarStar']
    mexec.ENUMS['DefParamKind'] = enum_variants(DEF, 'DefParamKind')
    mexec.ENUMS['DefRegularParamMode'] = enum_variants(DEF, 'DefRegularParamMode')
    vidx = {v: i for i, v in enumerate(variants)}
    N = 3 if sess.tier == 'quick' else 4
    for n in range(N + 2):
        run_call(sess, n)
    for n in range(N + 1):
        t1 = time.time()
        ob = Obligation(f'C08.def_params[{n}]', 'a `def` parameter list is accepted exactly when the Python/Starlark rules allow it (one `/` not first, at most one `*`/`*args`, `**kwargs` last, bare `*` followed by a named parameter, no non-default positional after a default) and every parameter gets the prescribed mode (positional-only / positional-or-keyword / keyword-only / *args / **kwargs)',
                        f'parameter lists of {n} parameters; each kind chosen by the solver among / , plain, with default, *, *args, **kwargs; names pairwise different')
        try:
            ex = sess.executor(True, extra=contracts())
            ex.max_depth = 40
            tags = [z3.Int(f'kind{i}') for i in range(n)]
            dflt = [z3.Int(f'default{i}') for i in range(n)]
            names = [z3.Int(f'name{i}') for i in range(n)]
            conds = []
            elems = []
            for i in range(n):
                conds += [tags[i] >= 0, tags[i] < len(variants), dflt[i] >= 0, dflt[i] <= 1, z3.Implies(tags[i] != vidx['Normal'], dflt[i] == 0)]
                named = z3.Or(tags[i] == vidx['Normal'], tags[i] == vidx['Args'], tags[i] == vidx['KwArgs'])
                # names: restricted growth (a canonical representative of every equality pattern); unnamed kinds get name 0
                hi = z3.IntVal(0)
                for j in range(i):
                    hi = z3.If(names[j] + 1 > hi, names[j] + 1, hi)
                conds += [names[i] >= 0, names[i] <= hi, z3.Implies(z3.Not(named), names[i] == 0)]
                ident = Struct([Struct([names[i], Opaque('payload')], 'AssignIdentP'), Opaque('span')], 'Spanned')
                node = SymEnum('ParameterP', tags[i], {0: ident, 1: Enum('None', [], 'Option'), 2: SymEnum('Option', dflt[i], {0: Opaque('default expr')})})
                elems.append(Struct([node, Opaque('span')], 'Spanned'))
            fn = ex.get_fn(sess.db.find_in_file('def.rs', 'unpack', r'_1: &\[Spanned<ParameterP'))
            outs = ex.run(fn, [Slice(z3.IntVal(n), elems, 'params'), Opaque('codemap')], Path(conds))
            ob.paths = len(outs)
            ninst = 0
            seqs = set()
            for v, p, m in outs:
                blocked = []
                while True:
                    r, model = sess.decide(ob, list(p.conds) + blocked)
                    if r == 'unknown':
                        ob.inconclusive('solver unknown')
                        break
                    if r != 'sat':
                        break
                    tv = [model_int(model, t) for t in tags]
                    dv = [model_int(model, t) for t in dflt]
                    nv = [model_int(model, t) for t in names]
                    blocked.append(z3.Or([t != x for t, x in zip(tags + dflt + names, tv + dv + nv)])) if n else blocked.append(z3.BoolVal(False))
                    kinds = []
                    for t_, d_ in zip(tv, dv):
                        name = variants[t_]
                        kinds.append({'Slash': '/', 'NoArgs': '*', 'Args': '*args', 'KwArgs': '**kw', 'Normal': 'x=1' if d_ else 'x'}[name])
                    want = python_rules(kinds)
                    used = [x for k_, x in zip(kinds, nv) if k_ not in ('/', '*')]
                    if len(set(used)) != len(used):
                        want = None      # duplicated parameter name
                    ninst += 1
                    seqs.add(tuple(kinds))
                    if v.variant == 'Ok':
                        dp = ex.deref(m, v.fields[0])
                        params = ex.deref(m, dp.fields[0])
                        modes = []
                        for sp in params.elems:
                            k = find_kind(ex, m, sp)
                            modes.append(ex.deref(m, k.fields[0]).variant if k.variant == 'Regular' else k.variant)
                        ind = ex.deref(m, dp.fields[1])
                        idx = []
                        for f in ind.fields:
                            f = ex.deref(m, f)
                            if isinstance(f, Enum):
                                idx.append(None if f.variant == 'None' else model.eval(f.fields[0], model_completion=True).as_long())
                            else:
                                idx.append(model.eval(f, model_completion=True).as_long())
                        got = {'modes': modes, 'num_positional': idx[0], 'num_positional_only': idx[1], 'args': idx[2], 'kwargs': idx[3]}
                    else:
                        got = None
                    if got != want:
                        ob.fail({'kind': 'def_params', 'params': kinds, 'names': nv, 'code': got, 'reference': want})
                    if not n:
                        break
            for pn in ex.panics:
                sess.panic_edges_checked += 1
                r, model = sess.decide(ob, pn.conds)
                if r == 'sat':
                    ob.fail({'kind': 'def_params', 'params': [variants[model_int(model, t)] for t in tags], 'panic': pn.msg, 'code': 'panic', 'reference': 'no panic'})
            ob.sample = {'instances': ninst, 'kind_sequences': len(seqs)}
            ob.designated = {'every kind sequence reached': len(seqs) == 6 ** n}
            if not ob.designated['every kind sequence reached']:
                ob.inconclusive(f'{len(seqs)} kind sequences reached, expected {6 ** n} (vacuity)')
            ob.twin = 'sat'
            sess.absorb(ex)
        except (Unsupported, LookupError, StopIteration) as e:
            ob.inconclusive(f'unsupported: {type(e).__name__} {e}')
        ob.wall_s = time.time() - t1
        sess.add(ob)


ARG_KINDS = ['Positional', 'Named', 'Args', 'KwArgs']


def starlark_call_rules(kinds, names):
    """Starlark call syntax: positional*, named* (distinct names), at most one *args, at most one **kwargs, in this order
    (spec: 'positional arguments, then named, then *args, then **kwargs')"""
    order = {'Positional': 0, 'Named': 1, 'Args': 2, 'KwArgs': 3}
    st = 0
    for k in kinds:
        o = order[k]
        if o < st or (o == st and o >= 2):
            return None
        st = o
    nm = [x for k, x in zip(kinds, names) if k == 'Named']
    if len(set(nm)) != len(nm):
        return None
    return {'pos': [i for i, k in enumerate(kinds) if k == 'Positional'], 'named': [i for i, k in enumerate(kinds) if k == 'Named'],
            'star': kinds.index('Args') if 'Args' in kinds else None, 'star_star': kinds.index('KwArgs') if 'KwArgs' in kinds else None}


def run_call(sess, n):
    t1 = time.time()
    variants = enum_variants(AST, 'ArgumentP')
    assert variants == ARG_KINDS, variants
    mexec.ENUMS['ArgumentP'] = variants
    mexec.ENUMS['ArgsStage'] = ['Positional', 'Named', 'Args', 'Kwargs']
    ob = Obligation(f'C08.call_args[{n}]', 'a call argument list is accepted exactly when it has the shape positional*, named* with pairwise different names, then at most one *args, then at most one **kwargs; and the validated form lists exactly the positional arguments, the named arguments, the *args and the **kwargs argument',
                    f'argument lists of {n} arguments; each kind chosen by the solver; names of named arguments chosen by the solver up to renaming')
    try:
        ex = sess.executor(True, extra=contracts())
        ex.max_depth = 40
        tags = [z3.Int(f'akind{i}') for i in range(n)]
        names = [z3.Int(f'aname{i}') for i in range(n)]
        conds, elems = [], []
        for i in range(n):
            hi = z3.IntVal(0)
            for j in range(i):
                hi = z3.If(names[j] + 1 > hi, names[j] + 1, hi)
            conds += [tags[i] >= 0, tags[i] < 4, names[i] >= 0, names[i] <= hi, z3.Implies(tags[i] != 1, names[i] == 0)]
            node = SymEnum('ArgumentP', tags[i], {0: Struct([names[i], Opaque('span')], 'Spanned'), 1: Opaque('expr')})
            elems.append(Struct([node, z3.IntVal(i)], 'Spanned'))      # the span field carries the position: identifies the argument
        mem = {('h', 'args'): Struct([Slice(z3.IntVal(n), elems, 'args')], 'CallArgsP')}
        fn = ex.get_fn(sess.db.find_in_file('call.rs', 'unpack', r'CallArgsP'))
        outs = ex.run(fn, [Ref(('h', 'args')), Opaque('codemap')], Path(conds), mem=mem)
        ob.paths = len(outs)
        seqs = set()
        ninst = 0
        for v, p, m in outs:
            blocked = []
            while True:
                r, model = sess.decide(ob, list(p.conds) + blocked)
                if r == 'unknown':
                    ob.inconclusive('solver unknown')
                    break
                if r != 'sat':
                    break
                tv = [model_int(model, t) for t in tags]
                nv = [model_int(model, t) for t in names]
                blocked.append(z3.Or([t != x for t, x in zip(tags + names, tv + nv)]) if n else z3.BoolVal(False))
                kinds = [variants[t] for t in tv]
                seqs.add(tuple(kinds))
                ninst += 1
                want = starlark_call_rules(kinds, nv)
                if v.variant == 'Ok':
                    cu = ex.deref(m, v.fields[0])

                    def pos_of(a):
                        a = ex.deref(m, a)
                        return model.eval(a.fields[1], model_completion=True).as_long()

                    def opt(o):
                        o = ex.deref(m, o)
                        return None if o.variant == 'None' else pos_of(o.fields[0])
                    f = [ex.deref(m, x) for x in cu.fields]
                    got = {'pos': [pos_of(a) for a in f[0].elems], 'named': [pos_of(a) for a in f[1].elems], 'star': opt(f[2]), 'star_star': opt(f[3])}
                else:
                    got = None
                if got != want:
                    ob.fail({'kind': 'call_args', 'args': kinds, 'names': nv, 'code': got, 'reference': want})
                if not n:
                    break
        for pn in ex.panics:
            sess.panic_edges_checked += 1
            r, model = sess.decide(ob, pn.conds)
            if r == 'sat':
                ob.fail({'kind': 'call_args', 'args': [variants[model_int(model, t)] for t in tags], 'names': [model_int(model, t) for t in names], 'panic': pn.msg, 'code': 'panic', 'reference': 'no panic'})
        ob.sample = {'instances': ninst, 'kind_sequences': len(seqs)}
        ob.designated = {'every kind sequence reached': len(seqs) == 4 ** n}
        if len(seqs) != 4 ** n:
            ob.inconclusive(f'{len(seqs)} kind sequences reached, expected {4 ** n} (vacuity)')
        ob.twin = 'sat'
        sess.absorb(ex)
    except (Unsupported, LookupError, StopIteration) as e:
        ob.inconclusive(f'unsupported: {type(e).__name__} {e}')
    ob.wall_s = time.time() - t1
    sess.add(ob)


META = {
    'explanation': 'C08 (definition side only): DefParams::unpack - the validation and classification of `def` parameter lists - is executed from MIR with its real loop; the kind of each parameter is a solver-chosen '
                   'enum discriminant, so every kind sequence of the bounded length is covered by path forking and compared with the Python/Starlark rules. Call-site binding (positional / named / *args / **kwargs to parameters) is NOT decided.',
    'bounds': 'parameter lists of at most 3 (quick) / 4 (thorough) parameters; names pairwise different (duplicate-name check stubbed)',
    'outside': 'argument binding at call sites (Arguments, ParametersSpec::collect*), native signatures, inlining, frozen calls: the larger part of C08',
    'assumptions': ['EvalException constructors, HashSet and span handling are stubs; parameter names are not modelled'],
}


def call_src(kinds, names):
    parts = []
    for i, (k, nm) in enumerate(zip(kinds, names)):
        parts.append({'Positional': f'{i}', 'Named': f'n{nm} = {i}', 'Args': f'*a{i}', 'KwArgs': f'**k{i}'}[k])
    return f'f({", ".join(parts)})\n'


def def_src(kinds, names=None):
    ps = []
    for i, k in enumerate(kinds):
        nm = f'p{names[i] if names else i}'
        ps.append({'/': '/', '*': '*', 'x': nm, 'x=1': nm + ' = 1', '*args': '*' + nm, '**kw': '**' + nm}[k])
    return f'def f({", ".join(ps)}):\n    pass\n'


def validate(sess, rp):
    """reference rules vs the real parser (which calls both validators) on every kind sequence of length <= 3"""
    cases, want = [], []
    for n in range(4):
        for kinds in itertools.product(KINDS, repeat=n):
            cases.append({'kind': 'parse', 'dialect': 'extended', 'src': def_src(list(kinds))})
            want.append(python_rules(list(kinds)) is not None)
        for kinds in itertools.product(ARG_KINDS, repeat=n):
            for names in ([list(range(n))], [[0] * n])[0:2]:
                for nm in names:
                    cases.append({'kind': 'parse', 'dialect': 'extended', 'src': call_src(list(kinds), nm)})
                    want.append(starlark_call_rules(list(kinds), nm) is not None)
    from .c08_bind import py_bind, PK
    import random
    rnd = random.Random(sess.seed + 8)
    bc, bw = [], []
    while len(bc) < 600:
        n = rnd.randint(0, 4)
        kinds = [rnd.choice(['Required', 'Defaulted']) for _ in range(n)]
        if n and rnd.random() < 0.4:
            kinds[-1] = 'KWargs'
        body = n - (1 if kinds and kinds[-1] == 'KWargs' else 0)
        a = None
        if body and rnd.random() < 0.4:
            a = rnd.randrange(body)
            kinds[a] = 'Args'
        lim = a if a is not None else body
        npos = a if a is not None else rnd.randint(0, lim)
        sig = {'kinds': kinds, 'npos': npos, 'nposonly': rnd.randint(0, npos)}
        if not valid_sig(sig):
            continue
        names = [i for i in range(n + 2) if i >= n or kinds[i] in ('Required', 'Defaulted')]
        P, K = rnd.randint(0, 4), rnd.randint(0, min(3, len(names)))
        S = rnd.choice([None, 0, 1, 2, 3])
        W = rnd.choice([None, 0, 1, 2, 3])
        W = None if W is None else min(W, len(names))
        call = {'pos': [100 + j for j in range(P)], 'named': list(zip(rnd.sample(names, K), [200 + j for j in range(K)])),
                'star': None if S is None else [300 + j for j in range(S)], 'kw': None if W is None else list(zip(rnd.sample(names, W), [400 + j for j in range(W)]))}
        bc.append({'kind': 'eval', 'dialect': 'extended', 'program': bind_program(sig, call)})
        wv = py_bind(sig, call)
        bw.append(None if wv is None else bind_repr(sig, wv))
    # can_fill_with_args through the public API vs the same reference
    fc, fw = [], []
    while len(fc) < 400:
        n = rnd.randint(0, 4)
        kinds = [rnd.choice(['Required', 'Optional', 'Defaulted']) for _ in range(n)]
        if n and rnd.random() < 0.4:
            kinds[-1] = 'KWargs'
        body = n - (1 if kinds and kinds[-1] == 'KWargs' else 0)
        a = None
        if body and rnd.random() < 0.4:
            a = rnd.randrange(body)
            kinds[a] = 'Args'
        npos = a if a is not None else rnd.randint(0, body)
        sig = {'kinds': kinds, 'npos': npos, 'nposonly': rnd.randint(0, npos)}
        names = [i for i in range(n + 2) if i >= n or kinds[i] in ('Required', 'Optional', 'Defaulted')]
        K = rnd.randint(0, min(3, len(names)))
        call = {'pos': [100 + j for j in range(rnd.randint(0, 4))], 'named': list(zip(rnd.sample(names, K), [200 + j for j in range(K)])), 'star': None, 'kw': None}
        fc.append(can_fill_case(sig, call))
        fw.append(py_bind(sig, call) is not None)
    fres = rp.run(fc, 'dev')
    bres = rp.run(bc, 'dev')
    mism = []
    for c, w, r in zip(fc, fw, fres):
        if r.get('ok') != w:
            mism.append({'can_fill': c, 'native': r, 'python_rules': w})
    for c, w, r in zip(bc, bw, bres):
        if r.get('ok') != w or 'panic' in r:
            mism.append({'program': c['program'], 'native': r, 'python_rules': w})
    res = rp.run(cases, 'dev')
    cases_n = len(bc) + len(fc)
    for c, w, r in zip(cases, want, res):
        acc = 'err' not in r and 'panic' not in r
        if acc != w:
            mism.append({'src': c['src'], 'native': r, 'reference_accepts': w})
    return len(cases) + cases_n, mism


def replay_bind(w, rp):
    from .c08_bind import py_bind
    sig, call = w['sig'], w['call']
    call = {'pos': call['pos'], 'named': [tuple(x) for x in call['named']], 'star': call['star'], 'kw': None if call['kw'] is None else [tuple(x) for x in call['kw']], 'kw_is_str': call.get('kw_is_str'), 'star_iterable': call.get('star_iterable', True), 'kw_is_dict': call.get('kw_is_dict', True)}
    prog = bind_program(sig, call)
    if prog is None or not valid_sig(sig):
        return {'reproduced': False, 'role': 'argument binding', 'detail': f'signature {sig} cannot be written as a def (native-only optional parameter or outside the builder invariant)', 'cases': []}
    want = py_bind(sig, call)
    res = rp.run([{'kind': 'eval', 'dialect': 'extended', 'program': prog}], 'dev')[0]
    if 'panic' in res:
        return {'reproduced': True, 'role': 'argument binding', 'detail': f'panic {res["panic"][:100]} in {prog!r}', 'cases': [prog]}
    got = res.get('ok')
    exp = None if want is None else bind_repr(sig, want)
    return {'reproduced': got != exp, 'role': 'argument binding', 'detail': f'{prog.splitlines()[0]} ; {prog.splitlines()[4].strip()}: natively {got if got is not None else "fails"}, Python rules give {exp if exp is not None else "an error"}', 'cases': [prog]}


def replay_builder(w, rp):
    """a def with the witness's parameter split, called in the ways that tell the three groups apart"""
    from .c08_bind import py_bind
    po, pn, has_args, no, has_kwargs = w['shape']
    kinds = [k if k != 'Optional' else 'Defaulted' for k in w.get('kinds', ['Required'] * (po + pn + no))]
    # Python: no required positional parameter after a defaulted one
    seen = False
    for i in range(po + pn):
        if kinds[i] == 'Defaulted':
            seen = True
        elif seen:
            kinds[i] = 'Defaulted'
    layout = kinds[:po + pn] + (['Args'] if has_args else []) + kinds[po + pn:] + (['KWargs'] if has_kwargs else [])
    sig = {'kinds': layout, 'npos': po + pn, 'nposonly': po}
    n = len(layout)
    regular = [i for i in range(n) if layout[i] in ('Required', 'Defaulted')]
    calls = []
    # all positional; all by name; positional-only ones positionally and the rest by name; one extra positional; one unknown name
    calls.append({'pos': [100 + j for j in range(po + pn)], 'named': [(i, 200 + i) for i in regular if i >= po + pn], 'star': None, 'kw': None})
    calls.append({'pos': [], 'named': [(i, 200 + i) for i in regular], 'star': None, 'kw': None})
    calls.append({'pos': [100 + j for j in range(po)], 'named': [(i, 200 + i) for i in regular if i >= po], 'star': None, 'kw': None})
    calls.append({'pos': [100 + j for j in range(po + pn + 1)], 'named': [(i, 200 + i) for i in regular if i >= po + pn], 'star': None, 'kw': None})
    calls.append({'pos': [100 + j for j in range(po + pn)], 'named': [(i, 200 + i) for i in regular if i >= po + pn] + [(n, 299)], 'star': None, 'kw': None})
    calls.append({'pos': [100 + j for j in range(po)], 'named': [], 'star': [300 + j for j in range(pn)], 'kw': [(i, 400 + i) for i in regular if i >= po + pn]})
    progs = [bind_program(sig, c) for c in calls]
    res = rp.run([{'kind': 'eval', 'dialect': 'extended', 'program': pr} for pr in progs], 'dev')
    notes = []
    for c, pr, r in zip(calls, progs, res):
        want = py_bind(sig, c)
        exp = None if want is None else bind_repr(sig, want)
        if 'panic' in r or 'abort' in r or r.get('ok') != exp:
            notes.append(f'{pr.splitlines()[0]} ; {pr.splitlines()[4].strip()}: natively {r.get("ok", "fails")}, Python rules give {exp if exp is not None else "an error"}')
    return {'reproduced': bool(notes), 'role': 'signature builder', 'detail': '; '.join(notes)[:600] or 'the probing calls behave as the Python rules say', 'cases': progs[:3]}


def can_fill_case(sig, call):
    kinds = sig['kinds']
    n = len(kinds)
    reg = [i for i in range(n) if kinds[i] in ('Required', 'Optional', 'Defaulted')]
    a = kinds.index('Args') if 'Args' in kinds else None
    po = [[f'p{i}', kinds[i]] for i in reg if i < sig['nposonly']]
    pn = [[f'p{i}', kinds[i]] for i in reg if sig['nposonly'] <= i < sig['npos']]
    no = [[f'p{i}', kinds[i]] for i in reg if i >= sig['npos']]
    return {'kind': 'can_fill', 'pos_only': po, 'pos_or_named': pn, 'args': a is not None, 'named_only': no, 'kwargs': 'KWargs' in kinds,
            'pos': len(call['pos']), 'names': [(f'p{x}' if x < n else f'u{x - n}') for x, _ in call['named']]}


def replay_can_fill(w, rp):
    from .c08_bind import py_bind
    sig, call = w['sig'], w['call']
    call = {'pos': call['pos'], 'named': [tuple(x) for x in call['named']], 'star': None, 'kw': None}
    if not valid_sig({**sig, 'kinds': [('Defaulted' if x == 'Optional' else x) for x in sig['kinds']]}) and False:
        pass
    case = can_fill_case(sig, call)
    res = rp.run([case], 'dev')[0]
    want = py_bind(sig, call) is not None
    return {'reproduced': 'panic' in res or res.get('ok') != want, 'role': 'can_fill_with_args', 'detail': f'new_parts({case["pos_only"]}, {case["pos_or_named"]}, args={case["args"]}, {case["named_only"]}, kwargs={case["kwargs"]}).can_fill_with_args({case["pos"]}, {case["names"]}) = {res.get("ok", res)}, the Python rules say {want}', 'cases': [case]}


def replay_witness(w, rp):
    if w['kind'] == 'bind':
        return replay_bind(w, rp)
    if w['kind'] == 'can_fill':
        return replay_can_fill(w, rp)
    if w['kind'] == 'builder':
        return replay_builder(w, rp)
    if w['kind'] == 'call_args':
        src = call_src(w['args'], w['names'])
        res = rp.run([{'kind': 'parse', 'dialect': 'extended', 'src': src}], 'dev')[0]
        accepted = 'err' not in res and 'panic' not in res
        want = starlark_call_rules(w['args'], w['names']) is not None
        return {'reproduced': ('panic' in res) or accepted != want, 'role': 'call argument list', 'detail': f'`{src.strip()}`: natively {"accepted" if accepted else "rejected"}, reference {"accepts" if want else "rejects"}', 'cases': [src]}
    kinds = w['params']
    names = iter('abcdefgh')
    ps = []
    for k in kinds:
        if k == '/':
            ps.append('/')
        elif k == '*':
            ps.append('*')
        elif k == 'x':
            ps.append(next(names))
        elif k == 'x=1':
            ps.append(next(names) + ' = 1')
        elif k == '*args':
            ps.append('*' + next(names))
        else:
            ps.append('**' + next(names))
    src = f'def f({", ".join(ps)}):\n    pass\n'
    res = rp.run([{'kind': 'parse', 'dialect': 'extended', 'src': src}], 'dev')[0]
    accepted = 'err' not in res and 'panic' not in res
    want = python_rules(kinds) is not None
    return {'reproduced': ('panic' in res) or accepted != want, 'role': 'def parameter list', 'detail': f'`def f({", ".join(ps)})`: natively {"accepted" if accepted else "rejected"}, reference {"accepts" if want else "rejects"}', 'cases': [src]}
