"""Shared session / obligation bookkeeping for all mirsym-based property checks."""
import json
import os
import re
import sys
import time
import z3

sys.path.insert(0, os.path.dirname(os.path.dirname(os.path.abspath(__file__))))
from mirsym.mir import MirDB, WORK      # noqa: E402
from mirsym.exec import (DIVIDES, Exec, Path, Enum, Struct, Ref, Big, Opaque, Err, Slice, Unsupported, INT_TY,  # noqa: E402,F401
                         POW2, POW2_AXIOMS, pow2_lemmas, in_range, wrap, int_tdiv, floor_shr)
from mirsym.contracts import std_contracts, compile_contracts, ret, fork2, SOME, NONE, OK, ERR, d, as_big  # noqa: E402,F401
from mirsym.smt import Decider, model_int, model_signed, model_f64_bits  # noqa: E402,F401

I32_MIN, I32_MAX = -(1 << 31), (1 << 31) - 1


class Obligation:
    def __init__(self, name, desc, bounds, designated=None):
        self.name = name
        self.desc = desc
        self.bounds = bounds
        self.paths = 0
        self.queries = 0
        self.status = 'discharged'       # discharged | violated | inconclusive
        self.reason = ''
        self.witnesses = []              # list of dict (replay cases)
        self.designated = designated or {}   # name -> bool (feasible?)
        self.twin = None                 # vacuity twin verdict
        self.sample = None
        self.wall_s = 0.0

    def fail(self, witness):
        self.status = 'violated' if self.status != 'inconclusive' else self.status
        self.witnesses.append(witness)

    def inconclusive(self, reason):
        self.status = 'inconclusive'
        self.reason = (self.reason + '; ' if self.reason else '') + reason

    def to_json(self):
        return {'name': self.name, 'what': self.desc, 'bounds': self.bounds, 'paths': self.paths, 'queries': self.queries,
                'status': self.status, 'reason': self.reason, 'designated_paths_feasible': self.designated,
                'vacuity_twin': self.twin, 'witnesses': self.witnesses[:5], 'sample': self.sample, 'wall_s': round(self.wall_s, 2)}


class Session:
    """One check run: MIR database, solver settings, bookkeeping for evidence."""

    def __init__(self, prop, tier, seed, crates=('starlark',)):
        self.prop = prop
        self.tier = tier
        self.seed = seed
        self.t0 = time.time()
        self.db = MirDB()
        self.log = os.path.join(WORK, f'mir-emit-{prop}.log')
        open(self.log, 'w').close()
        for c in crates:
            self.db.add_crate(c, self.log)
        self.decider = Decider(timeout_s=150 if tier == 'quick' else 900, cross=(tier == 'thorough') or os.environ.get('VERIF_CROSS') == '1', seed=seed)
        self.obligations = []
        self.encoded = {}
        self.used_contracts = {}
        self.feas_queries = 0
        self.unknown_feas = 0
        self.panic_edges_checked = 0
        self.extra_contracts = []      # property-specific contracts (name, regex, fn)
        self.notes = set()
        z3.set_param('smt.random_seed', seed & 0x7fffffff)

    def executor(self, intmode, bigw=128, extra=()):
        ex = Exec(self.db, intmode, bigw=bigw)
        ex.contracts = compile_contracts(list(extra), self.extra_contracts) + std_contracts()
        ex.assert_hooks = [(re.compile(r'StarlarkBigInt::unchecked_new$'), hook_unchecked_new)]
        return ex

    def absorb(self, ex):
        self.encoded.update(ex.encoded)
        for k, v in ex.used_contracts.items():
            self.used_contracts[k] = self.used_contracts.get(k, 0) + v
        self.feas_queries += ex.feas_queries
        self.unknown_feas += ex.unknown_feas

    def add(self, ob):
        self.obligations.append(ob)
        tag = {'discharged': 'ok', 'violated': 'VIOLATED', 'inconclusive': 'INCONCLUSIVE'}[ob.status]
        print(f'  [{tag}] {ob.name}: paths={ob.paths} queries={ob.queries} {ob.wall_s:.1f}s {ob.reason}', flush=True)
        return ob

    def decide(self, ob, conds, lemmas=(), label='', refine=None):
        """refine: definitions of uninterpreted abstractions; a sat answer under the abstraction is
        re-decided with the definitions added (unsat under the abstraction is already conclusive)"""
        ob.queries += 1
        r, m = self.decider.check(conds, lemmas, label=label or ob.name)
        if r == 'sat' and refine:
            ob.queries += 1
            self.notes.add('uninterpreted abstractions (divides / mul64) are refined with their definitions whenever a query is sat')
            r, m = self.decider.check(list(conds) + list(refine), lemmas, label=(label or ob.name) + ' (refined)')
        return r, m


def hook_unchecked_new(ex, st, args, path, callee):
    """`debug_assert!(InlineInt::try_from(&value).is_err())` in StarlarkBigInt::unchecked_new: the MIR is emitted with
    debug assertions off, so the assertion (a panic in the dev profile the suite runs in) is restored here"""
    v = ex.deref(st['mem'], args[0])
    while isinstance(v, Struct) and len(v.fields) == 1:
        v = ex.deref(st['mem'], v.fields[0])
    if not isinstance(v, Big):
        return
    t = v.t
    if ex.intmode:
        inside = z3.And(t >= I32_MIN, t <= I32_MAX)
    else:
        inside = z3.And(t >= z3.BitVecVal(I32_MIN, t.size()), t <= z3.BitVecVal(I32_MAX, t.size()))
    bad = path.add(inside)
    if ex.feasible(bad.conds):
        ex.add_panic(bad, 'debug_assert: BigInt must be outside of `InlineInt` range (StarlarkBigInt::unchecked_new)', callee)


# ----------------------------------------------------------------------------- integer operands
MEM0 = {}


def mk_small(ex, name):
    if ex.intmode:
        x = z3.Int(name)
        return Enum('Small', [x], 'StarlarkIntRef'), x, [x >= I32_MIN, x <= I32_MAX]
    x = z3.BitVec(name, 32)
    return Enum('Small', [x], 'StarlarkIntRef'), x, []


def mk_big(ex, name, mem):
    if ex.intmode:
        n = z3.Int(name)
        mem[('h', name)] = Struct([Big(n)], 'StarlarkBigInt')
        return Enum('Big', [Ref(('h', name))], 'StarlarkIntRef'), n, [z3.Or(n < I32_MIN, n > I32_MAX)]
    n = z3.BitVec(name, ex.bigw)
    mem[('h', name)] = Struct([Big(n)], 'StarlarkBigInt')
    lo, hi = z3.BitVecVal(I32_MIN, ex.bigw), z3.BitVecVal(I32_MAX, ex.bigw)
    # stay strictly inside the width so that -n and ~n are representable
    lim = z3.BitVecVal(-(1 << (ex.bigw - 2)), ex.bigw)
    return Enum('Big', [Ref(('h', name))], 'StarlarkIntRef'), n, [z3.Or(n < lo, n > hi), n > lim, n < -lim]


def math_val(ex, term, kind):
    """mathematical value of an operand term as a term of the mode's 'big' sort"""
    if ex.intmode:
        return term
    if kind == 'small':
        return z3.SignExt(ex.bigw - 32, term)
    return term


def result_value(ex, mem, v):
    """StarlarkInt -> (math value term, canonical-form condition, 'Small'|'Big')"""
    v = ex.deref(mem, v)
    if isinstance(v, Enum) and v.variant == 'Small':
        x = ex.deref(mem, v.fields[0])
        while isinstance(x, Struct) and len(x.fields) == 1:
            x = x.fields[0]
        if not z3.is_expr(x):
            raise Unsupported(f'Small payload {x!r}')
        if ex.intmode:
            return x, z3.And(x >= I32_MIN, x <= I32_MAX), 'Small'
        return z3.SignExt(ex.bigw - 32, x), z3.BoolVal(True), 'Small'
    if isinstance(v, Enum) and v.variant == 'Big':
        ex.cur_mem = mem
        b = as_big(ex, v.fields[0]).t
        if ex.intmode:
            return b, z3.Or(b < I32_MIN, b > I32_MAX), 'Big'
        lo, hi = z3.BitVecVal(I32_MIN, ex.bigw), z3.BitVecVal(I32_MAX, ex.bigw)
        return b, z3.Or(b < lo, b > hi), 'Big'
    raise Unsupported(f'unexpected integer result {v}')


def fdiv(a, b):
    """floor division on Int via z3's euclidean div"""
    return z3.If(b > 0, a / b, (-a) / (-b))


def fmod(a, b):
    return a - b * fdiv(a, b)
