"""C06 — the parser builds the prescribed tree: binding-power relation only (DESIGN.md §5-C06).

`infix_binding_power` and `is_comparison` (private functions of parser_rd.rs) are executed from MIR for
every Token / BinOp variant (discriminants read from the enum declarations at run time); the resulting
relation is compared with the reference precedence / associativity relation for every ordered operator
pair, with the pair chosen by the solver."""
import re
import time
import z3

from .common import Session, Obligation, Path, Enum, Struct, Ref, Opaque, Unsupported, model_int
from .srcparse import enum_variants
from mirsym import exec as mexec

CRATES = ('starlark_syntax',)
LEXER = '/repo/starlark_syntax/src/lexer.rs'
AST = '/repo/starlark_syntax/src/syntax/ast.rs'
PARSER = '/repo/starlark_syntax/src/syntax/parser_rd.rs'

# reference: the grammar Starlark shares with Python; level numbers only order the classes
REF = {
    'Or': ('Or', 1, 'or'), 'And': ('And', 2, 'and'),
    'EqualEqual': ('Equal', 4, '=='), 'BangEqual': ('NotEqual', 4, '!='), 'LessThan': ('Less', 4, '<'), 'GreaterThan': ('Greater', 4, '>'),
    'LessEqual': ('LessOrEqual', 4, '<='), 'GreaterEqual': ('GreaterOrEqual', 4, '>='), 'In': ('In', 4, 'in'), 'Not': ('NotIn', 4, 'not in'),
    'Pipe': ('BitOr', 5, '|'), 'Caret': ('BitXor', 6, '^'), 'Ampersand': ('BitAnd', 7, '&'),
    'LessLess': ('LeftShift', 8, '<<'), 'GreaterGreater': ('RightShift', 8, '>>'),
    'Plus': ('Add', 9, '+'), 'Minus': ('Subtract', 9, '-'),
    'Star': ('Multiply', 10, '*'), 'Percent': ('Percent', 10, '%'), 'Slash': ('Divide', 10, '/'), 'SlashSlash': ('FloorDivide', 10, '//'),
}
NOT_LEVEL = 3          # prefix `not` binds tighter than `and`, looser than comparisons
COMPARISONS = {'Equal', 'NotEqual', 'Less', 'Greater', 'LessOrEqual', 'GreaterOrEqual', 'In', 'NotIn'}


def run(sess):
    t1 = time.time()
    ob = Obligation('C06.binding_power', 'for every ordered pair of binary operator tokens the Pratt rule (continue iff left_bp >= min_bp, min_bp = right_bp of the first) groups `a t1 b t2 c` as the reference precedence/associativity does; '
                    'every operator is left-associative (l < r); each token maps to the BinOp of the same name; non-operator tokens have no binding power',
                    'all Token variants (read from `enum Token`), all ordered operator pairs chosen by the solver')
    try:
        toks = enum_variants(LEXER, 'Token')
        binops = enum_variants(AST, 'BinOp')
        mexec.ENUMS['Token'] = toks
        mexec.ENUMS['BinOp'] = binops
        ex = sess.executor(True)
        fn = ex.get_fn(sess.db.find_in_file('parser_rd.rs', 'infix_binding_power'))
        table = {}
        for t in toks:
            mem = {('h', 't'): Enum(t, [Opaque('payload')], 'Token')}
            outs = ex.run(fn, [Ref(('h', 't'))], Path(), mem=mem)
            ob.paths += len(outs)
            if len(outs) != 1:
                raise Unsupported(f'infix_binding_power({t}) has {len(outs)} paths')
            v = outs[0][0]
            if v.variant == 'None':
                table[t] = None
            else:
                tup = v.fields[0]
                op, l, r = tup.fields
                table[t] = (op.variant, z3.simplify(l).as_long(), z3.simplify(r).as_long())
        # 1. exactly the reference operator tokens have a binding power, with the right BinOp
        for t in toks:
            got = table[t]
            want = REF.get(t)
            if (got is None) != (want is None):
                ob.fail({'kind': 'bp', 'what': f'token {t}: binding power {"missing" if got is None else "unexpected"}', 't1': t, 't2': t})
            elif got and got[0] != want[0]:
                ob.fail({'kind': 'bp', 'what': f'token {t} maps to BinOp::{got[0]}, reference {want[0]}', 't1': t, 't2': t})
        ops = [t for t in toks if table[t] and t in REF]
        # 2. the pair relation, pair chosen by the solver
        i1, i2 = z3.Int('t1'), z3.Int('t2')

        def fun(idx, f):
            term = z3.IntVal(-1)
            for k, t in enumerate(ops):
                term = z3.If(idx == k, z3.IntVal(f(t)), term)
            return term
        L = lambda i: fun(i, lambda t: table[t][1])
        R = lambda i: fun(i, lambda t: table[t][2])
        P = lambda i: fun(i, lambda t: REF[t][1])
        dom = [i1 >= 0, i1 < len(ops), i2 >= 0, i2 < len(ops)]
        checks = [('grouping of `a t1 b t2 c` differs from the reference', (L(i2) >= R(i1)) != (P(i2) > P(i1))),
                  ('operator is not left-associative (left_bp >= right_bp)', L(i1) >= R(i1)),
                  ('binding power does not order the precedence classes like the reference', (L(i1) < L(i2)) != (P(i1) < P(i2)))]
        # prefix `not`: level constants read from parse_expr
        src = open(PARSER).read()
        m1 = re.search(r'Some\(&Token::Not\) && min_bp <= (\d+)', src)
        m2 = re.search(r'Some\(&Token::Not\) && min_bp <= \d+ \{.*?self\.parse_expr\((\d+)\)', src, re.S)
        if not (m1 and m2):
            ob.inconclusive('prefix-not binding power constants not found in parse_expr')
        else:
            nb, nrb = int(m1.group(1)), int(m2.group(1))
            # operand of `not` extends over t iff l(t) >= nrb; reference: iff level(t) > NOT_LEVEL
            checks.append(('operand of prefix `not` does not extend exactly over the tighter operators', (L(i1) >= nrb) != (P(i1) > NOT_LEVEL)))
            # `not` may start an operand of t1 iff r(t1) <= nb; reference: iff level(t1) < NOT_LEVEL
            checks.append(('prefix `not` allowed as right operand of the wrong operators', (R(i1) <= nb) != (P(i1) < NOT_LEVEL)))
        for what, viol in checks:
            r, model = sess.decide(ob, dom + [viol])
            if r == 'sat':
                a, b = ops[model_int(model, i1)], ops[model_int(model, i2)]
                ob.fail({'kind': 'bp', 'what': what, 't1': a, 't2': b})
            elif r == 'unknown':
                ob.inconclusive('solver unknown')
        r, model = sess.decide(ob, dom + [L(i2) >= R(i1)])
        ob.twin = r
        if r == 'sat':
            ob.sample = {'t1': ops[model_int(model, i1)], 't2': ops[model_int(model, i2)], 'groups_right': True}
        # 3. is_comparison
        fn2 = ex.get_fn(sess.db.find_in_file('parser_rd.rs', 'is_comparison'))
        for b in binops:
            outs = ex.run(fn2, [Enum(b, [], 'BinOp')], Path())
            ob.paths += len(outs)
            if len(outs) != 1:
                raise Unsupported('is_comparison: several paths')
            val = z3.is_true(z3.simplify(outs[0][0]))
            if val != (b in COMPARISONS):
                ob.fail({'kind': 'bp', 'what': f'is_comparison(BinOp::{b}) = {val}', 't1': {v[0]: k for k, v in REF.items()}.get(b, 'Plus'), 't2': 'LessThan', 'cmp': b})
        ob.designated = {'22 operator tokens': len(ops) == len(REF)}
        sess.absorb(ex)
    except (Unsupported, LookupError) as e:
        ob.inconclusive(f'unsupported: {e}')
    ob.wall_s = time.time() - t1
    sess.add(ob)
    from . import c06_loop
    c06_loop.run(sess)


META = {
    'explanation': 'C06 (narrow): only the operator binding-power relation of the Pratt parser is decided: infix_binding_power / is_comparison are executed from MIR for every '
                   'Token / BinOp variant and the induced grouping relation is compared with the reference precedence table for every ordered operator pair (pair chosen by the solver).',
    'bounds': 'all 85 Token variants, all 21 BinOp variants, all ordered pairs of the 22 operator tokens',
    'outside': 'acceptance/rejection of token sequences beyond those streams, arguments, slices, statements, tuples, the Display round trip: most of C06. The loop of parse_expr IS executed '
               'symbolically (C06.parse_expr_loop) for streams of three identifier operands with two symbolic operator tokens, with prefix `not` before the first or second operand and `not in` (quick), and four operands with three symbolic operator tokens (thorough, 8000 triples); operand parsing (parse_unary) is a stub.',
    'assumptions': ['the Pratt continuation rule of parse_expr is as restated (trusted; replay parses `a t1 b t2 c`)'],
}


def ref_group(t1, t2):
    """reference grouping of `a t1 b t2 c`: 'right', 'left' or 'error' (chained comparison)"""
    p1, p2 = REF[t1][1], REF[t2][1]
    if p1 == 4 and p2 == 4:
        return 'error'
    return 'right' if p2 > p1 else 'left'


def replay_witness(w, rp):
    t1, t2 = w['t1'], w['t2']
    if w.get('src'):
        res = rp.run([{'kind': 'parse', 'src': w['src']}], 'dev')[0]
        got = 'error' if 'err' in res else (res.get('printed') or '').strip()
        want = w['want']
        # the native printer writes operators as symbols, the obligation as BinOp names: compare the grouping only
        import re as _re
        shape = lambda t: _re.sub(r'[^()a-c ]|not|in', '', t).replace(' ', '')
        repro = (want == 'error') != (got == 'error') or (want != 'error' and shape(want) != shape(got))
        return {'reproduced': repro, 'role': 'parse loop grouping', 'detail': f'`{w["src"]}` parses natively as {got}; reference {want}', 'cases': [w['src']]}
    if t1 not in REF or t2 not in REF:
        return {'reproduced': False, 'role': 'binding power', 'detail': f'no replay for non-operator token {t1}/{t2}'}
    s1, s2 = REF[t1][2], REF[t2][2]
    cases = [{'kind': 'parse', 'src': f'a {s1} b {s2} c'}, {'kind': 'parse', 'src': f'not a {s1} b'}, {'kind': 'parse', 'src': f'a {s1} not b'}]
    res = rp.run(cases, 'dev')
    want = ref_group(t1, t2)
    g = res[0]
    repro = False
    detail = ''
    if want == 'error':
        if 'err' not in g:
            repro = True
            detail = f'chained comparison accepted: {g.get("printed")}'
    else:
        printed = (g.get('printed') or '').strip()
        exp = f'(a {s1} (b {s2} c))' if want == 'right' else f'((a {s1} b) {s2} c)'
        if printed != exp:
            repro = True
            detail = f'`a {s1} b {s2} c` parsed as {printed or g}, reference {exp}'
    # prefix not
    p1 = REF[t1][1]
    n = (res[1].get('printed') or '').strip()
    exp_n = f'(not (a {s1} b))' if p1 > NOT_LEVEL else f'((not a) {s1} b)'
    if n != exp_n:
        repro = True
        detail += f' `not a {s1} b` parsed as {n or res[1]}, reference {exp_n}'
    return {'reproduced': repro, 'role': f'binding power: {w.get("what", "")[:60]}', 'detail': detail or 'parses as the reference', 'cases': cases}


def validate(sess, rp):
    """the restated Pratt rule is tied to the real parser: every ordered operator pair (and prefix `not` on either side)
    is parsed natively and compared with the reference grouping"""
    cases, meta = [], []
    for t1 in REF:
        for t2 in REF:
            s1, s2 = REF[t1][2], REF[t2][2]
            cases.append({'kind': 'parse', 'src': f'a {s1} b {s2} c'})
            want = ref_group(t1, t2)
            exp = 'error' if want == 'error' else (f'(a {s1} (b {s2} c))' if want == 'right' else f'((a {s1} b) {s2} c)')
            meta.append((f'a {s1} b {s2} c', exp))
        s1 = REF[t1][2]
        p1 = REF[t1][1]
        cases.append({'kind': 'parse', 'src': f'not a {s1} b'})
        meta.append((f'not a {s1} b', f'(not (a {s1} b))' if p1 > NOT_LEVEL else f'((not a) {s1} b)'))
        cases.append({'kind': 'parse', 'src': f'a {s1} not b'})
        # `not` as a right operand is only grammatical after `and` / `or`
        meta.append((f'a {s1} not b', f'(a {s1} (not b))' if p1 < NOT_LEVEL else 'error'))
    res = rp.run(cases, 'dev')
    mism = []
    for (src, exp), g in zip(meta, res):
        got = 'error' if 'err' in g else (g.get('printed') or '').strip()
        if got != exp:
            mism.append(f'`{src}` parses as {got}, reference {exp}')
    return len(cases), mism
