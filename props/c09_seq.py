"""C09 for sequences: `equals_slice` / `compare_slice` (values/comparison.rs), the helpers behind tuple and list equality and
ordering, executed with their real MIR loops on sequences of bounded length with symbolic integer elements; the element
comparison closure is integer comparison."""
import itertools
import time
import z3

from .common import Obligation, Path, Enum, Struct, Ref, Opaque, Slice, Unsupported, ret, OK, model_int
from .seq import ITER
from mirsym.contracts import ordering_term


def lex_cmp(xs, ys):
    """Python's lexicographic three-way comparison as an 8-bit term"""
    B = lambda v: z3.BitVecVal(v, 8)
    res = B((len(xs) > len(ys)) - (len(xs) < len(ys)))
    for x, y in reversed(list(zip(xs, ys))):
        res = z3.If(x < y, B(-1), z3.If(x > y, B(1), res))
    return res


def run(sess):
    N = 3 if sess.tier == 'quick' else 4
    obs = []

    def c_elem_eq(ex, st, args, path, callee):
        tup = args[1]
        a, b = ex.deref(st['mem'], tup.fields[0]), ex.deref(st['mem'], tup.fields[1])
        return ret(OK(a == b), path)

    def c_elem_cmp(ex, st, args, path, callee):
        tup = args[1]
        a, b = ex.deref(st['mem'], tup.fields[0]), ex.deref(st['mem'], tup.fields[1])
        return ret(OK(ex.ordering_of(a < b, a == b)), path)
    for n, m in itertools.product(range(N + 1), repeat=2):
        t1 = time.time()
        ob = Obligation(f'C09.seq[{n},{m}]', 'sequence equality is elementwise with equal lengths; sequence ordering is lexicographic (as for Python tuples); compare is Equal exactly when equals; compare(x,y) is the reverse of compare(y,x)',
                        f'sequences of {n} and {m} symbolic integer elements')
        try:
            xs = [z3.Int(f'x{i}') for i in range(n)]
            ys = [z3.Int(f'y{i}') for i in range(m)]
            res = {}
            for fname, elem in (('equals_slice', c_elem_eq), ('compare_slice', c_elem_cmp)):
                extra = ITER + [('the element closure = integer ' + ('equality' if fname == 'equals_slice' else 'comparison'), r'^<impl Fn\(&X1, &X2\) -> Result<.*> as Fn<\(&X1, &X2\)>>::call$', elem)]
                for order in ('xy', 'yx'):
                    ex = sess.executor(True, extra=extra)
                    fn = ex.get_fn(sess.db.find(rf'^fn (?:[\w:]*::)?{fname}\(_1: &\[X1\], _2: &\[X2\]'))
                    a, b = (xs, ys) if order == 'xy' else (ys, xs)
                    outs = ex.run(fn, [Slice(z3.IntVal(len(a)), list(a), 'xs'), Slice(z3.IntVal(len(b)), list(b), 'ys'), Opaque('closure')], Path([]))
                    ob.paths += len(outs)
                    term = None
                    for v, p, mm in reversed(outs):
                        if v.variant != 'Ok':
                            raise Unsupported(f'{fname} returned Err')
                        val = v.fields[0] if fname == 'equals_slice' else ordering_term(v.fields[0])
                        term = val if term is None else z3.If(z3.And(p.conds) if p.conds else z3.BoolVal(True), val, term)
                    res[(fname, order)] = term
                    for pn in ex.panics:
                        sess.panic_edges_checked += 1
                        r, model = sess.decide(ob, pn.conds)
                        if r == 'sat':
                            ob.fail({'kind': 'seq', 'what': 'panic: ' + pn.msg, 'panic': pn.msg, 'xs': [model_int(model, t) for t in xs], 'ys': [model_int(model, t) for t in ys]})
                    sess.absorb(ex)
            eq, cmp_xy, cmp_yx = res[('equals_slice', 'xy')], res[('compare_slice', 'xy')], res[('compare_slice', 'yx')]
            want_eq = z3.And([z3.BoolVal(n == m)] + [x == y for x, y in zip(xs, ys)]) if n == m else z3.BoolVal(False)
            checks = [('sequence == is not elementwise equality', eq != want_eq), ('== is not symmetric', eq != res[('equals_slice', 'yx')]),
                      ('sequence ordering is not lexicographic', cmp_xy != lex_cmp(xs, ys)), ('compare is Equal but the sequences differ (or the reverse)', (cmp_xy == 0) != eq),
                      ('compare(x, y) is not the reverse of compare(y, x)', cmp_xy != -cmp_yx)]
            for what, viol in checks:
                r, model = sess.decide(ob, [viol])
                if r == 'sat':
                    ob.fail({'kind': 'seq', 'what': what, 'xs': [model_int(model, t) for t in xs], 'ys': [model_int(model, t) for t in ys]})
                elif r == 'unknown':
                    ob.inconclusive('solver unknown')
            ob.twin = 'sat'
            ob.sample = {'lengths': [n, m]}
        except (Unsupported, LookupError) as e:
            ob.inconclusive(f'unsupported: {e}')
        ob.wall_s = time.time() - t1
        obs.append(sess.add(ob))
    return obs


def replay_witness(w, rp):
    xs, ys = w['xs'], w['ys']
    tx, ty = tuple(xs), tuple(ys)
    lit = lambda t: '(' + ', '.join(map(str, t)) + (',' if len(t) == 1 else '') + ')'
    prog = f'x = {lit(tx)}\ny = {lit(ty)}\n(x == y, y == x, x < y, y < x, x <= y, list(x) == list(y), list(x) < list(y), sorted([y, x]) == sorted([x, y]))'
    exp = str((tx == ty, ty == tx, tx < ty, ty < tx, tx <= ty, list(tx) == list(ty), list(tx) < list(ty), True))
    repro = False
    got = {}
    for profile in ('dev', 'release'):
        g = rp.run([{'kind': 'eval', 'program': prog}], profile)[0]
        got[profile] = g
        if 'panic' in g or 'abort' in g or g.get('ok') != exp:
            repro = True
    return {'reproduced': repro, 'role': 'sequence equality / ordering: ' + w.get('what', '')[:50], 'detail': f'{lit(tx)} vs {lit(ty)} expected {exp}; native {str(got)[:300]}', 'cases': [prog]}
