"""C01: the start/end window of string methods (`str.find / rfind / index / count / startswith / endswith`):
`starlark_syntax::fast_string::convert_str_indices` with its fast paths and `convert_str_indices_slow`, on an abstract ASCII
string of symbolic length.  The UTF-8 scanning primitive `split_at` and the length functions are stubs with their ASCII meaning;
`get_unchecked` carries its safety condition as a panic edge."""
import itertools
import time
import z3

from .common import (Obligation, Path, Enum, Struct, Ref, Opaque, Unsupported, ret, fork2, SOME, NONE, d, model_int, I32_MIN, I32_MAX)


def astr(off, length):
    return Struct([off, length], 'AStr')


def unidx(v):
    while isinstance(v, Struct) and v.ty != 'AStr':
        v = v.fields[0]
    return v


def mk_contracts():
    def c_split_at(ex, st, args, path, callee):
        s = d(ex, args[0])
        i = unidx(args[1])
        off, ln = s.fields
        pair = Struct([astr(off, i), astr(off + i, ln - i)])
        return fork2(ex, path, i <= ln, SOME(pair), NONE())

    def c_len_chars(ex, st, args, path, callee):
        s = d(ex, args[0])
        return ret(s.fields[1], path)       # CharIndex(n) is a newtype over the count

    def c_len_bytes(ex, st, args, path, callee):
        s = d(ex, args[0])
        return ret(s.fields[1], path)

    def c_get_unchecked(ex, st, args, path, callee):
        s = d(ex, args[0])
        rng = args[1]
        a, b = rng.fields[0], rng.fields[1]
        off, ln = s.fields
        bad = path.add(z3.Or(a > b, b > ln, a < 0))
        if ex.feasible(bad.conds):
            ex.add_panic(bad, 'str::get_unchecked out of bounds (undefined behaviour)', callee)
        return ret(astr(off + a, b - a), path.add(z3.And(a <= b, b <= ln, a >= 0)))
    return [
        ('fast_string::split_at(s, i) = Some((s[:i], s[i:])) iff i <= len (ASCII; stub for the UTF-8 scan)', r'^(?:[\w:]*fast_string::)?split_at$', c_split_at),
        ('fast_string::len = char count (stub)', r'^(?:[\w:]*fast_string::)?len$', c_len_chars),
        ('str::len = byte count = char count (ASCII)', r'^(core::)?str::<impl str>::len$', c_len_bytes),
        ('str::get_unchecked(a..b) = s[a:b]; a <= b <= len is its safety condition (panic edge)', r'str::<impl str>::get_unchecked::<', c_get_unchecked),
    ]


def run(sess):
    from . import c01
    obs = []
    for ks, ke in itertools.product(('none', 'int'), repeat=2):
        t1 = time.time()
        ob = Obligation(f'C01.str_window[{ks},{ke}]', 'the (start, end) window of str.find/count/index/startswith/... is the Python window: negative indices from the end, end clamped to len, no window when start lies after end',
                        'ASCII strings of every length 0..2^31-1; every i32 / None start, end')
        try:
            ex = sess.executor(True, extra=mk_contracts() + c01.EXTRA)
            L, s, e = z3.Int('len'), z3.Int('start'), z3.Int('end')
            fn = ex.get_fn(sess.db.find(r'^fn (?:[\w:]*::)?convert_str_indices\(_1: &str'))
            sa = SOME(s) if ks == 'int' else NONE()
            ea = SOME(e) if ke == 'int' else NONE()
            outs = ex.run(fn, [astr(z3.IntVal(0), L), sa, ea], Path([L >= 0, L <= I32_MAX, c01.I32(s), c01.I32(e)]))
            ob.paths = len(outs)
            ws = z3.If(s < 0, z3.If(s + L < 0, 0, s + L), s) if ks == 'int' else z3.IntVal(0)          # CPython: start is not clamped to len
            we = z3.If(e < 0, z3.If(e + L < 0, 0, e + L), z3.If(e > L, L, e)) if ke == 'int' else L
            window = ws <= we

            def wit(m):
                return {'kind': 'str_window', 'len': model_int(m, L), 'start': model_int(m, s) if ks == 'int' else None, 'end': model_int(m, e) if ke == 'int' else None}
            for v, p, m in outs:
                if v.variant == 'None':
                    c01.check_viol(sess, ob, p.conds, window, [], wit, prefer=[L <= 8])
                else:
                    si = v.fields[0]
                    start = unidx(si.fields[0])
                    hay = ex.deref(m, si.fields[1])
                    off, ln = hay.fields
                    c01.check_viol(sess, ob, p.conds, z3.Or(z3.Not(window), start != ws, off != ws, ln != we - ws), [], wit, prefer=[L <= 8])
            c01.finish(sess, ob, ex, outs, t1, wit)
        except Unsupported as ex_:
            ob.inconclusive(f'unsupported MIR: {ex_}')
            ob.wall_s = time.time() - t1
            sess.add(ob)
        except LookupError as ex_:
            ob.inconclusive(f'function not found: {ex_}')
            ob.wall_s = time.time() - t1
            sess.add(ob)
        obs.append(ob)
    return obs


def replay_witness(w, rp):
    L = w['len']
    if not isinstance(L, int) or L > 2000:
        return {'reproduced': False, 'role': 'string window', 'detail': f'no small native replay for {w}'}
    t = ''.join(chr(ord('a') + (i % 26)) for i in range(L))
    s, e = w['start'], w['end']
    args = ', '.join(str(v) if v is not None else 'None' for v in (s, e))
    needle = t[-1:] if L else ''
    prog = f'x = "{t}"\n(x.find("", {args}), x.rfind("", {args}), x.count("", {args}), x.find("{needle}", {args}), x.count("a", {args}), x.startswith("", {args}), x.endswith("{needle}", {args}))'
    exp = (t.find('', s, e), t.rfind('', s, e), t.count('', s, e), t.find(needle, s, e), t.count('a', s, e), t.startswith('', s, e), t.endswith(needle, s, e))
    repro = False
    got = {}
    for profile in ('dev', 'release'):
        g = rp.run([{'kind': 'eval', 'program': prog}], profile)[0]
        got[profile] = g
        if 'panic' in g or 'abort' in g or g.get('ok') != str(exp):
            repro = True
    return {'reproduced': repro, 'role': 'string window', 'detail': f'len {L} window ({args}): expected {exp}; native {str(got)[:300]}', 'cases': [prog]}


def validate(rp):
    """native string methods vs Python on a grid of windows (ties the abstract-string stubs to the real UTF-8 code, ASCII and non-ASCII)"""
    grid = [None, -6, -5, -4, -1, 0, 1, 2, 3, 4, 5, 6]
    cases, meta = [], []
    for t in ('', 'a', 'abcab', 'héllo'):
        for s in grid:
            for e in grid:
                args = ', '.join(str(v) if v is not None else 'None' for v in (s, e))
                sub = t[1:2]
                sl = ('' if s is None else str(s)) + ':' + ('' if e is None else str(e))
                prog = f'(x.find("", {args}), x.rfind("", {args}), x.count("", {args}), x.find(y, {args}), x.count(y, {args}), x.startswith(y, {args}), x.endswith(y, {args}), len(x[{sl}]), x[{sl}] == x[{sl}:1])'
                exp = (t.find('', s, e), t.rfind('', s, e), t.count('', s, e), t.find(sub, s, e), t.count(sub, s, e), t.startswith(sub, s, e), t.endswith(sub, s, e), len(t[s:e]), True)
                cases.append({'kind': 'eval', 'program': prog, 'vars': {'x': {'str': t}, 'y': {'str': sub}}})
                meta.append((f'{t!r} window ({args})', str(exp)))
    res = rp.run(cases, 'dev')
    mism = [f'{what}: Python {exp}, native {str(g)[:120]}' for (what, exp), g in zip(meta, res) if g.get('ok') != exp]
    return len(cases), mism


def run_index(sess):
    """C01.str_index: `s[i]` (StarlarkStr::at) selects the Python character position, for every i32 index and every string length"""
    from . import c01
    from .common import OK, Opaque, Slice
    t1 = time.time()
    ob = Obligation('C01.str_index', '"..."[i] selects character i (negative: len + i) or fails exactly when i is out of range, as in Python',
                    'every i32 index; every string length (chars <= bytes < 2^31); character lookup is a stub that reports the position it was asked for')
    try:
        i, nchars, nbytes = z3.Int('index'), z3.Int('len_chars'), z3.Int('len_bytes')

        def c_unpack_param(ex, st, args, path, callee):
            return ret(OK(args[0].fields[0]), path)

        def c_fs_len(ex, st, args, path, callee):
            return ret(nchars, path)

        def c_fs_at(ex, st, args, path, callee):
            idx = unidx(args[1])
            return fork2(ex, path, idx < nchars, SOME(Struct([idx], 'CharAt')), NONE())

        def c_alloc(ex, st, args, path, callee):
            return ret(args[-1], path)

        def c_bytes(ex, st, args, path, callee):
            return ret(Slice(nbytes, None, 'bytes'), path)
        extra = [('i32::unpack_param(Value) = the int index (receiver plumbing)', r'^<i32 as UnpackValue<.*>>::unpack_param$', c_unpack_param),
                 ('fast_string::len = char count (stub)', r'fast_string::len$', c_fs_len),
                 ('fast_string::at(s, k) = the character at position k iff k < char count (stub)', r'fast_string::at$', c_fs_at),
                 ('str::len = byte count (stub)', r'^(core::)?str::<impl str>::len$|StarlarkStr::len$', lambda ex, st, args, path, callee: ret(nbytes, path)),
                 ('Heap::alloc(char) = the character (stub)', r'Heap::<.*>::alloc::<char>$', c_alloc),
                 ('<StarlarkStr as Deref>::deref = the string itself (stub)', r'^<StarlarkStr as (std::ops::)?Deref>::deref$', lambda ex, st, args, path, callee: ret(args[0], path)),
                 ('str::as_bytes = byte slice (stub)', r'str::<impl str>::as_bytes$', c_bytes)]
        ex = sess.executor(True, extra=extra)
        fn = ex.get_fn(sess.db.find_in_file('str_type.rs', 'at', r'_1: &StarlarkStr'))
        pre = [c01.I32(i), nchars >= 0, nchars <= nbytes, nbytes <= I32_MAX]
        outs = ex.run(fn, [Opaque('self'), Enum('Int', [i], 'Value'), Opaque('heap')], Path(pre))
        ob.paths = len(outs)
        j = z3.If(i < 0, i + nchars, i)
        valid = z3.And(j >= 0, j < nchars)
        wit = lambda m: {'kind': 'str_index', 'len': model_int(m, nchars), 'bytes': model_int(m, nbytes), 'index': model_int(m, i)}
        for v, p, m in outs:
            if v.variant == 'Ok':
                got = v.fields[0]
                if isinstance(got, Struct) and got.ty == 'CharAt':
                    c01.check_viol(sess, ob, p.conds, z3.Or(z3.Not(valid), got.fields[0] != j), [], wit, prefer=[nbytes <= 8])
                else:
                    # ASCII fast path: `as_bytes()[k] as char` -- the index of the byte read is checked through the bounds assert; position = k
                    c01.check_viol(sess, ob, p.conds, z3.Not(valid), [], wit, prefer=[nbytes <= 8])
            else:
                c01.check_viol(sess, ob, p.conds, valid, [], wit, prefer=[nbytes <= 8])
        c01.finish(sess, ob, ex, outs, t1, wit)
    except (Unsupported, LookupError) as ex_:
        ob.inconclusive(f'unsupported: {ex_}')
        ob.wall_s = time.time() - t1
        sess.add(ob)
    return ob
