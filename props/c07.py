"""C07 — evaluation is total: panic-freedom of the encoded kernels (DESIGN.md §5-C07).

Every MIR `assert` (overflow, division by zero, remainder overflow, bounds), every `unreachable`, every
call into a panic entry (unwrap on None, expect, panic_fmt) and every panic edge of a contract (BigInt / 0)
met while executing the kernels of C10, C01, C15 and C09 is a query "path condition and failing condition";
it must be unsat for all inputs that satisfy only the type invariants."""
import time

from .common import Session, Obligation
from . import c10, c01, c15, c09

CRATES = ('starlark_map', 'starlark_syntax', 'starlark')


def is_panic(w):
    return bool(w.get('panic')) or str(w.get('what', '')).startswith('panic')


def run(sess):
    parts = [('C10', c10), ('C01', c01), ('C15', c15)]
    for tag, mod in parts:
        n0 = len(sess.obligations)
        mod.run(sess)
        for ob in sess.obligations[n0:]:
            relabel(ob, tag)
    # numeric comparison / hashing kernels: the pair obligations execute equals / compare (quick); hashing too (thorough)
    n0 = len(sess.obligations)
    orig = c09.run_ob

    def filt(s, name, desc, body, bounds=None):
        if 'transitive' in name:
            return None
        if 'hash' in name and sess.tier == 'quick':
            return None
        return orig(s, name, desc, body, bounds)
    c09.run_ob = filt
    try:
        c09.run(sess)
    finally:
        c09.run_ob = orig
    for ob in sess.obligations[n0:]:
        relabel(ob, 'C09')
    sweep(sess)
    str_at(sess)


def relabel(ob, tag):
    ob.origin = tag
    ob.name = 'C07.no_panic.' + ob.name
    ob.desc = 'no panic edge (overflow assert, division by zero, bounds, unreachable, unwrap) is feasible while executing: ' + ob.desc
    pan = [w for w in ob.witnesses if is_panic(w)]
    for w in pan:
        w['origin'] = tag
    had_other = len(pan) != len(ob.witnesses)
    ob.witnesses = pan
    if ob.status == 'violated' and not pan:
        ob.status = 'discharged'
        ob.reason = 'value obligations of this kernel are decided under ' + tag + ', not here' if had_other else ob.reason


META = {
    'explanation': 'C07 (kernel scope): panic-freedom of the arithmetic kernels encoded for C10, C01, C15 and C09: every assert / unreachable / unwrap / BigInt-division edge reached by the '
                   'symbolic execution is decided infeasible for all inputs satisfying only the type invariants (ill-typed-but-representable arguments, extreme ints, zero divisors, huge shifts).',
    'bounds': 'as the originating obligations: no magnitude bound for integers in integer mode; every i32 / f64; one step of the accounting kernels',
    'outside': 'the other ~270 builtins, error spans and call stacks, evaluator reuse after failure (only the call-stack counter), memory safety of unsafe blocks, the interpreter around the kernels',
    'assumptions': ['a panic edge inside a contracted library function is only modelled where the contract says so (BigInt division by zero, unwrap/expect, iN::abs)'],
}


def replay_witness(w, rp):
    if w.get('origin') == 'C07sweep':
        return replay_builtin(w, rp)
    if w.get('origin') == 'C07str':
        return replay_str_at(w, rp)
    mod = {'C10': c10, 'C01': c01, 'C15': c15, 'C09': c09}.get(w.get('origin'))
    if mod is None:
        return {'reproduced': False, 'role': 'panic', 'detail': 'unknown origin'}
    rep = mod.replay_witness(w, rp)
    # a C07 witness only counts when the native run really panics / aborts
    det = rep.get('detail', '')
    rep['reproduced'] = bool(rep.get('reproduced')) and ('panic' in det or 'abort' in det)
    rep['role'] = 'panic: ' + str(w.get('panic') or w.get('what'))[:60] + ' / ' + rep.get('role', '')
    return rep


# ----------------------------------------------------------------------------- builtin prologue sweep
def int_params(f):
    """symbolic models for the integer-typed parameters of a generated builtin body; everything else is opaque"""
    import re as _re
    import z3
    from .common import Enum, Opaque, in_range, I32_MIN, I32_MAX
    args, conds, ints = [], [], []
    for i, (n, t) in enumerate(f.args):
        t = t.strip()
        v = z3.Int(f'p{i}')
        if t in ('i32', 'u32', 'i64', 'u64', 'usize', 'isize'):
            from .common import INT_TY
            w, sg = INT_TY[t]
            args.append(v)
            conds.append(in_range(v, w, sg))
            ints.append((i, t, v))
        elif t == 'NoneOr<i32>':
            args.append(Enum('Other', [v], 'NoneOr'))
            conds.append(in_range(v, 32, True))
            ints.append((i, t, v))
        elif _re.fullmatch(r'(std::option::)?Option<i32>', t):
            args.append(Enum('Some', [v], 'Option'))
            conds.append(in_range(v, 32, True))
            ints.append((i, t, v))
        else:
            args.append(Opaque('arg ' + t[:40]))
    return args, conds, ints


def sweep(sess):
    """C07.builtin_prologue: in every #[starlark_module] function body that takes integer parameters, no arithmetic panic
    edge is feasible before control flow depends on a value the executor does not model (bug-hunting beyond that point)"""
    import time as _time
    import z3
    from .common import Obligation, Path, Unsupported, model_int
    from mirsym import exec as mexec
    mexec.ENUMS['NoneOr'] = ['None', 'Other']
    fns = [m for m in sess.db.fns if '__starlark_invoke_impl' in m.header and '{closure' not in m.header]
    t1 = _time.time()
    ob = Obligation('C07.no_panic.builtin_prologues', 'no arithmetic panic edge (overflow, division by zero, negation overflow) is feasible in the integer prologue of any builtin / method body generated by #[starlark_module]',
                    'every value of every integer-typed parameter (i32, NoneOr<i32>, Option<i32>, u32, i64, u64, usize); other parameters opaque; each path is followed until control flow depends on an unmodelled value')
    nbodies = 0
    cuts = 0
    for m in fns:
        ex = sess.executor(True)
        ex.havoc = True
        ex.step_bound = 200
        f = ex.get_fn(m)
        args, conds, ints = int_params(f)
        if not ints:
            continue
        nbodies += 1
        try:
            ex.run(f, args, Path(conds))
        except Exception as e:           # a body the executor cannot even start on is outside the sweep
            sess.notes.add('builtin prologue sweep: bodies that could not be executed at all are skipped (counted in evidence)')
            continue
        ob.paths += ex.npaths
        cuts += ex.cuts
        for pn in ex.panics:
            sess.panic_edges_checked += 1
            r, model = sess.decide(ob, pn.conds)
            if r == 'sat':
                ob.fail({'kind': 'builtin', 'panic': pn.msg, 'sig': [t for _, t in f.args], 'ints': {str(i): model_int(model, v) for i, t, v in ints},
                         'in': m.header[:200], 'origin': 'C07sweep'})
            elif r == 'unknown':
                ob.inconclusive('solver unknown on a panic edge of ' + m.header[:80])
        sess.encoded.update(ex.encoded)
    ob.designated = {'bodies with integer parameters executed': nbodies >= 10}
    ob.sample = {'bodies': nbodies, 'paths_cut_at_unmodelled_values': cuts}
    ob.twin = 'sat'
    ob.wall_s = _time.time() - t1
    sess.add(ob)
    return ob


def replay_builtin(w, rp):
    """the solver's integer witness is placed into calls of every method of the receiver's type whose parameter shape fits;
    a native panic reproduces the finding"""
    sig = w['sig']
    ints = {int(k): v for k, v in w['ints'].items()}
    recv = None
    if sig and ('&str' == sig[0] or 'StarlarkStr' in sig[0]):
        recv, dirx = '"a b c"', 'dir("")'
    elif sig and 'ListRef' in sig[0] or (sig and 'ListData' in sig[0]):
        recv, dirx = '[1, 2, 3]', 'dir([])'
    if recv is None:
        return {'reproduced': False, 'role': 'builtin prologue panic', 'detail': f'no native replay for a builtin with signature {sig}'}
    params = []
    for i, t in enumerate(sig[1:], start=1):
        if i in ints:
            params.append(str(ints[i]))
        elif 'Heap' in t or 'Evaluator' in t:
            continue
        elif 'str' in t or 'String' in t:
            params.append('" "')
        else:
            params.append('1')
    names = rp.run([{'kind': 'eval', 'program': dirx}], 'dev')[0].get('ok', '[]')
    import ast
    try:
        methods = ast.literal_eval(names)
    except Exception:
        methods = []
    cases = [{'kind': 'eval', 'program': f'{recv}.{m}({", ".join(params)})'} for m in methods]
    res = rp.run(cases, 'dev')
    hits = [(c['program'], r.get('panic') or r.get('abort')) for c, r in zip(cases, res) if 'panic' in r or 'abort' in r]
    return {'reproduced': bool(hits), 'role': 'builtin prologue panic: ' + '; '.join(sorted({h[0].split('(')[0].split('.')[-1] for h in hits})),
            'detail': f'panic in {hits[:3]}' if hits else f'no method of {recv} panics with arguments ({", ".join(params)})', 'cases': cases[:3]}


def str_at(sess):
    """C07.no_panic.str_index: `s[i]` (StarlarkStr::at) for every i32 index; string length and character lookup are arbitrary"""
    import time as _time
    import z3
    from .common import Obligation, Path, Enum, Struct, Ref, Opaque, Unsupported, OK, SOME, NONE, fork2, ret, model_int, in_range
    t1 = _time.time()
    ob = Obligation('C07.no_panic.str_index', '"..."[i] never panics: index arithmetic of StarlarkStr::at for every i32 index', 'every i32 index; string length (in chars and bytes) arbitrary; character lookup arbitrary')
    try:
        i = z3.Int('index')
        nchars, nbytes = z3.Int('len_chars'), z3.Int('len_bytes')

        def c_unpack_param(ex, st, args, path, callee):
            return ret(OK(args[0].fields[0]), path)

        def c_fs_len(ex, st, args, path, callee):
            return ret(nchars, path)

        def c_fs_at(ex, st, args, path, callee):
            idx = args[1]
            while isinstance(idx, Struct):
                idx = idx.fields[0]
            return fork2(ex, path, idx < nchars, SOME(Opaque('char')), NONE())

        def c_str_len(ex, st, args, path, callee):
            return ret(nbytes, path)

        def c_alloc(ex, st, args, path, callee):
            return ret(Opaque('value'), path)
        extra = [('i32::unpack_param(Value) = the int index (receiver plumbing)', r'^<i32 as UnpackValue<.*>>::unpack_param$', c_unpack_param),
                 ('fast_string::len = arbitrary char count (stub)', r'fast_string::len$', c_fs_len),
                 ('fast_string::at(s, i) = Some iff i < char count (stub)', r'fast_string::at$', c_fs_at),
                 ('str::len = arbitrary byte count >= char count (stub)', r'^(core::)?str::<impl str>::len$|StarlarkStr::len$', c_str_len),
                 ('Heap::alloc(char) (stub)', r'Heap::<.*>::alloc::<char>$', c_alloc),
                 ('<StarlarkStr as Deref>::deref = the string itself (stub)', r'^<StarlarkStr as (std::ops::)?Deref>::deref$', lambda ex, st, args, path, callee: ret(args[0], path)),
                 ('str::as_bytes = a byte slice of the string length (stub)', r'str::<impl str>::as_bytes$', lambda ex, st, args, path, callee: ret(__import__('mirsym.exec', fromlist=['Slice']).Slice(nbytes, None, 'bytes'), path))]
        ex = sess.executor(True, extra=extra)
        ex.havoc = True
        fn = ex.get_fn(sess.db.find_in_file('str_type.rs', 'at', r'_1: &StarlarkStr'))
        pre = [in_range(i, 32, True), nchars >= 0, nchars <= nbytes, nbytes < (1 << 32)]
        outs = ex.run(fn, [Opaque('self'), Enum('Int', [i], 'Value'), Opaque('heap')], Path(pre))
        ob.paths = len(outs) + ex.cuts
        for pn in ex.panics:
            sess.panic_edges_checked += 1
            r, model = sess.decide(ob, pn.conds)
            if r == 'sat':
                ob.fail({'kind': 'str_index', 'panic': pn.msg, 'index': model_int(model, i), 'origin': 'C07str'})
            elif r == 'unknown':
                ob.inconclusive('solver unknown on a panic edge')
        ob.twin = 'sat'
        ob.sample = {'paths': ob.paths, 'cut_at_unmodelled_values': ex.cuts}
        sess.absorb(ex)
    except (Unsupported, LookupError) as e:
        ob.inconclusive(f'unsupported: {e}')
    ob.wall_s = _time.time() - t1
    sess.add(ob)


def replay_str_at(w, rp):
    i = w['index']
    cases = [{'kind': 'eval', 'program': f'"abc"[{i}]'}, {'kind': 'eval', 'program': f'x[i]', 'vars': {'x': {'str': 'h\u00e9llo'}, 'i': {'int': str(i)}}}]
    res = rp.run(cases, 'dev')
    hit = [r for r in res if 'panic' in r or 'abort' in r]
    return {'reproduced': bool(hit), 'role': 'string index panic', 'detail': f'"abc"[{i}]: {str(res)[:300]}', 'cases': cases}
