"""C07 — evaluation is total: panic-freedom of the encoded kernels (DESIGN.md §5-C07).

Every MIR `assert` (overflow, division by zero, remainder overflow, bounds), every `unreachable`, every
call into a panic entry (unwrap on None, expect, panic_fmt) and every panic edge of a contract (BigInt / 0)
met while executing the kernels of C10, C01, C15 and C09 is a query "path condition and failing condition";
it must be unsat for all inputs that satisfy only the type invariants."""
import time

from .common import Session, Obligation
from . import c10, c01, c15, c09

CRATES = ('starlark_map', 'starlark_syntax', 'starlark')


def is_panic(w):
    return bool(w.get('panic')) or str(w.get('what', '')).startswith('panic')


def run(sess):
    parts = [('C10', c10), ('C01', c01), ('C15', c15)]
    for tag, mod in parts:
        n0 = len(sess.obligations)
        mod.run(sess)
        for ob in sess.obligations[n0:]:
            relabel(ob, tag)
    # numeric comparison / hashing kernels: the pair obligations execute equals / compare (quick); hashing too (thorough)
    n0 = len(sess.obligations)
    orig = c09.run_ob

    def filt(s, name, desc, body, bounds=None):
        if 'transitive' in name:
            return None
        if 'hash' in name and sess.tier == 'quick':
            return None
        return orig(s, name, desc, body, bounds)
    c09.run_ob = filt
    try:
        c09.run(sess)
    finally:
        c09.run_ob = orig
    for ob in sess.obligations[n0:]:
        relabel(ob, 'C09')


def relabel(ob, tag):
    ob.origin = tag
    ob.name = 'C07.no_panic.' + ob.name
    ob.desc = 'no panic edge (overflow assert, division by zero, bounds, unreachable, unwrap) is feasible while executing: ' + ob.desc
    pan = [w for w in ob.witnesses if is_panic(w)]
    for w in pan:
        w['origin'] = tag
    had_other = len(pan) != len(ob.witnesses)
    ob.witnesses = pan
    if ob.status == 'violated' and not pan:
        ob.status = 'discharged'
        ob.reason = 'value obligations of this kernel are decided under ' + tag + ', not here' if had_other else ob.reason


META = {
    'explanation': 'C07 (kernel scope): panic-freedom of the arithmetic kernels encoded for C10, C01, C15 and C09: every assert / unreachable / unwrap / BigInt-division edge reached by the '
                   'symbolic execution is decided infeasible for all inputs satisfying only the type invariants (ill-typed-but-representable arguments, extreme ints, zero divisors, huge shifts).',
    'bounds': 'as the originating obligations: no magnitude bound for integers in integer mode; every i32 / f64; one step of the accounting kernels',
    'outside': 'the other ~270 builtins, error spans and call stacks, evaluator reuse after failure (only the call-stack counter), memory safety of unsafe blocks, the interpreter around the kernels',
    'assumptions': ['a panic edge inside a contracted library function is only modelled where the contract says so (BigInt division by zero, unwrap/expect, iN::abs)'],
}


def replay_witness(w, rp):
    mod = {'C10': c10, 'C01': c01, 'C15': c15, 'C09': c09}.get(w.get('origin'))
    if mod is None:
        return {'reproduced': False, 'role': 'panic', 'detail': 'unknown origin'}
    rep = mod.replay_witness(w, rp)
    # a C07 witness only counts when the native run really panics / aborts
    det = rep.get('detail', '')
    rep['reproduced'] = bool(rep.get('reproduced')) and ('panic' in det or 'abort' in det)
    rep['role'] = 'panic: ' + str(w.get('panic') or w.get('what'))[:60] + ' / ' + rep.get('role', '')
    return rep
