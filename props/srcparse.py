"""Tiny Rust source readers: enum variants / struct fields in declaration order (run-time lookup, no line numbers)."""
import re


def _strip(src):
    """remove comments, string/char literals' contents and #[...] attributes (bracket matched)"""
    out = []
    i, n = 0, len(src)
    while i < n:
        c = src[i]
        if src.startswith('//', i):
            j = src.find('\n', i)
            i = n if j < 0 else j
            continue
        if src.startswith('/*', i):
            j = src.find('*/', i + 2)
            i = n if j < 0 else j + 2
            continue
        if c == '"':
            j = i + 1
            while j < n and src[j] != '"':
                j += 2 if src[j] == '\\' else 1
            out.append('""')
            i = j + 1
            continue
        if c == 'r' and re.match(r'r#*"', src[i:]):
            m = re.match(r'r(#*)"', src[i:])
            end = '"' + m.group(1)
            j = src.find(end, i + len(m.group(0)))
            out.append('""')
            i = n if j < 0 else j + len(end)
            continue
        if c == "'" and re.match(r"'(\\.|[^\\'])'", src[i:]):
            m = re.match(r"'(\\.|[^\\'])'", src[i:])
            out.append("' '")
            i += len(m.group(0))
            continue
        out.append(c)
        i += 1
    s = ''.join(out)
    # attributes
    res = []
    i, n = 0, len(s)
    while i < n:
        if s.startswith('#[', i) or s.startswith('#![', i):
            j = s.find('[', i)
            depth = 0
            while j < n:
                if s[j] == '[':
                    depth += 1
                elif s[j] == ']':
                    depth -= 1
                    if depth == 0:
                        break
                j += 1
            i = j + 1
            continue
        res.append(s[i])
        i += 1
    return ''.join(res)


def _body(src, header_rx):
    m = re.search(header_rx, src)
    if not m:
        return None
    i = m.end()
    depth = 1
    j = i
    while depth and j < len(src):
        if src[j] == '{':
            depth += 1
        elif src[j] == '}':
            depth -= 1
        j += 1
    return src[i:j - 1]


def _split_top(body):
    out, cur, depth = [], '', 0
    for ch in body:
        if ch in '({[<':
            depth += 1
        elif ch in ')}]>':
            depth -= 1
        if ch == ',' and depth <= 0:
            out.append(cur)
            cur = ''
        else:
            cur += ch
    if cur.strip():
        out.append(cur)
    return out


def enum_variants(path, name):
    src = _strip(open(path).read())
    body = _body(src, r'\benum ' + name + r'\b[^{;]*\{')
    if body is None:
        raise LookupError(f'enum {name} not found in {path}')
    out = []
    for part in _split_top(body):
        mm = re.match(r'\s*(\w+)', part)
        if mm:
            out.append(mm.group(1))
    return out


def struct_fields(path, name):
    src = _strip(open(path).read())
    body = _body(src, r'\bstruct ' + name + r'\b[^{;]*\{')
    if body is None:
        raise LookupError(f'struct {name} not found in {path}')
    out = []
    for part in _split_top(body):
        mm = re.match(r'\s*(?:pub(?:\([\w:\s]+\))?\s+)?(\w+)\s*:', part)
        if mm:
            out.append(mm.group(1))
    return out
