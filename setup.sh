#!/bin/bash
# Build the framework from files on disk only (offline). The checks rebuild whatever depends on /repo themselves;
# this only warms the caches (MIR target dirs, replay binary) so that the first quick check is not a cold build.
set -e
cd "$(dirname "$0")"
export CARGO_NET_OFFLINE=true
mkdir -p .work evidence replays
/opt/veriftools/pyvenv/bin/python3 - <<'PY'
import sys
sys.path.insert(0, '.')
from mirsym.mir import emit
for c in ('starlark_map', 'starlark_syntax', 'starlark'):
    p, s = emit(c, '.work/setup-mir.log')
    print('MIR', c, round(s, 1), 's', p)
from props.replay import Replayer
r = Replayer()
for prof in ('dev', 'release'):
    r.build(prof)
    print('replay binary', prof, r.build_s[prof], 's')
PY
