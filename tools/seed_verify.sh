#!/bin/bash
# usage: tools/seed_verify.sh <worktree> <outdir> <i> <star|rs>
# Confirms a seeded change in a scratch worktree: applies, builds, runs the existing tests of the touched crates
# (lib + integration tests, as the baseline does), runs the demonstration on the clean and on the changed tree.
set -u
wt=$1; out=$2; i=$3; kind=$4
cd "$wt" || exit 3
git checkout -q -- . ; rm -f starlark/tests/seed_demo.rs
log=$out/verify$i.log; : > $log
run_demo() {
  if [ "$kind" = star ]; then
    cargo build -q -p starlark_bin --offline >> $log 2>&1 || { echo BUILD-FAIL; return; }
    ./target/debug/starlark -e "$(cat $out/demo$i.star)" 2>&1 | tail -1
  else
    printf 'include!("%s");\n' "$out/demo$i.rs" > starlark/tests/seed_demo.rs
    cargo test -q -p starlark --offline --test seed_demo 2>&1 | grep -E "^test result|panicked|FAILED" | head -3 | tr '\n' ' '
    rm -f starlark/tests/seed_demo.rs
  fi
}
echo "clean demo: $(run_demo)" | tee -a $log
git apply $out/patch$i.diff || { echo "PATCH DOES NOT APPLY" | tee -a $log; exit 3; }
crates=$(git diff --name-only | cut -d/ -f1 | sort -u)
echo "changed demo: $(run_demo)" | tee -a $log
for c in $crates; do
  echo "tests $c: $(cargo test -p $c --lib --tests --offline 2>&1 | grep -E '^test result' | tr '\n' ' ')" | tee -a $log
done
git checkout -q -- . ; rm -f starlark/tests/seed_demo.rs
[ "$kind" = star ] && { echo "expected: $(cat $out/demo$i.expected | tail -1)"; echo "broken:   $(cat $out/demo$i.broken | tail -1)"; } | tee -a $log
