#!/bin/bash
# usage: tools/seed_demo_map.sh <worktree> <outdir> <i>  -- starlark_map demo tests (integration test file) on clean and changed tree + crate tests
wt=$1; out=$2; i=$3
cd "$wt" || exit 3
git checkout -q -- . ; rm -rf starlark_map/tests
run_demo() {
  mkdir -p starlark_map/tests
  printf 'include!("%s");\n' "$out/demo$i.rs" > starlark_map/tests/seed_demo.rs
  cargo test -q -p starlark_map --offline --test seed_demo 2>&1 | grep -E "^test result|panicked at" | head -3 | cut -c1-220 | tr '\n' ' '
  rm -rf starlark_map/tests
}
echo "clean demo:   $(run_demo)"
git apply $out/patch$i.diff
echo "changed demo: $(run_demo)"
echo "tests starlark_map: $(cargo test -p starlark_map --lib --tests --offline 2>&1 | grep -E '^test result' | tr '\n' ' ')"
echo "tests starlark: $(cargo test -p starlark --lib --offline 2>&1 | grep -E '^test result' | tr '\n' ' ')"
git checkout -q -- . ; rm -rf starlark_map/tests
