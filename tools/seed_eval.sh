#!/bin/bash
# usage: tools/seed_eval.sh <patch.diff> <PROP> [<PROP>...]   -- applies a seeded change to /repo, runs the quick checks, undoes it
set -u
patch=$(realpath "$1"); shift
cd /repo
if [ -n "$(git status --porcelain)" ]; then echo "/repo not clean"; exit 3; fi
git apply "$patch" || { echo "patch does not apply"; exit 3; }
cd /verif
for p in "$@"; do
  ./check "$p" --tier quick > ".work/seed-$(basename $(dirname $patch))-$(basename $patch .diff)-$p.log" 2>&1
  rc=$?
  echo "== $p exit=$rc"
  grep -E "^VIOLATION|^KNOWN-FINDING|^INCONCLUSIVE|^  obligation=" ".work/seed-$(basename $(dirname $patch))-$(basename $patch .diff)-$p.log" | cut -c1-260 | head -8
done
cd /repo && git checkout -- . && git status --porcelain
