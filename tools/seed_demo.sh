#!/bin/bash
# usage: tools/seed_demo.sh <worktree> <outdir> <i> <star|rs>  -- runs only the demonstration on the clean and the changed tree
wt=$1; out=$2; i=$3; kind=$4
cd "$wt" || exit 3
git checkout -q -- . ; rm -rf starlark/tests/seed_demo.rs
run_demo() {
  if [ "$kind" = star ]; then
    cargo build -q -p starlark_bin --offline 2>/dev/null || { echo BUILD-FAIL; return; }
    ./target/debug/starlark -e "$(cat $out/demo$i.star)" 2>/dev/null | head -1
  else
    mkdir -p starlark/tests
    printf 'include!("%s");\n' "$out/demo$i.rs" > starlark/tests/seed_demo.rs
    cargo test -q -p starlark --offline --test seed_demo 2>&1 | grep -E "^test result|panicked at|failed:" | head -3 | cut -c1-200 | tr '\n' ' '
    rm -f starlark/tests/seed_demo.rs
  fi
}
echo "clean demo:   $(run_demo)"
git apply $out/patch$i.diff
echo "changed demo: $(run_demo)"
git checkout -q -- . ; rm -f starlark/tests/seed_demo.rs; rmdir starlark/tests 2>/dev/null
