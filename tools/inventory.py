#!/usr/bin/env python3
"""Regenerates DESIGN.md section 12 (obligation inventory) from evidence/<ID>.json of the last runs."""
import json, os, re, collections
HERE = os.path.dirname(os.path.dirname(os.path.abspath(__file__)))
ORDER = ['C10', 'C09', 'C01', 'C07', 'C08', 'C15', 'C06', 'C11']
out = ['## 12. Obligation inventory (from the evidence of the clean-tree quick runs)', '',
       'Each line is a family of obligations (representation combinations / argument-presence patterns in brackets and, for C11, sizes and',
       'outcome classes are collapsed); the authoritative per-run list with paths, queries, bounds and samples is `evidence/<ID>.json`',
       '(`coverage.obligation_list`; `coverage.harness_list` for C11).', '']
for pid in ORDER:
    ev = json.load(open(os.path.join(HERE, 'evidence', f'{pid}.json')))
    cov = ev['coverage']
    out.append(f"**{pid}** — {cov.get('obligations')} obligations, {cov.get('discharged')} discharged, {cov.get('evaluations')} solver queries / CBMC properties, wall {ev.get('wall_s')} s (tier {ev.get('tier')}).")
    out.append('')
    items = cov.get('obligation_list') or cov.get('harness_list') or []
    fam = collections.OrderedDict()
    for o in items:
        name = o.get('name') or o.get('harness', '')
        if pid == 'C11':
            key = re.sub(r'_n\d+', '_n*', name)
            key = re.sub(r'_(hit\d|miss|i\d|mask[01]+|c\d)(?=_|$)', '', key)
            key = re.sub(r'_(idx|key|iter|probe)$', '', key)
        else:
            key = re.sub(r'\[.*\]$', '[…]', name)
        fam.setdefault(key, []).append(o)
    for key, os_ in fam.items():
        what = (os_[0].get('what') or os_[0].get('desc') or '').strip().replace('\n', ' ')
        if len(what) > 260:
            what = what[:257] + '…'
        out.append(f"* `{key}`" + (f" ×{len(os_)}" if len(os_) > 1 else '') + f" — {what}")
    out.append('')
p = os.path.join(HERE, 'DESIGN.md')
s = open(p).read()
i = s.index('## 12. Obligation inventory')
s = s[:i] + '\n'.join(out)
open(p, 'w').write(s)
print('section 12 regenerated:', sum(1 for l in out if l.startswith('* ')), 'families')
